"""Durable-state invariants shared by C06 / C10 / C12: what a recorded version's directory must hold."""
import hashlib
import json
import os
import tarfile
import tempfile

from . import model as M
from . import sim
from .scenario import split_tid


def script_of(op, task, execno=0):
    sc = (op or {}).get("scripts", {}).get(task)
    if sc is None:
        return sim.DEFAULT_SCRIPT
    if isinstance(sc, dict):
        return sc
    if 0 <= execno < len(sc):
        return sc[execno] or sim.DEFAULT_SCRIPT
    return sc[-1] if sc else sim.DEFAULT_SCRIPT


def expected_streams(op, task, execno=0, with_bg=True):
    """(stdout bytes, stderr bytes) a complete execution of the script writes"""
    sc = script_of(op, task, execno)
    out, err = b"", b""
    name = "%s#%d" % (task, execno)
    for idx, st in enumerate(sc.get("steps", [])):
        if st[0] == "out":
            out += sim.gen_bytes(st[1], "%s.%dout" % (name, idx))
        elif st[0] == "err":
            err += sim.gen_bytes(st[1], "%s.%derr" % (name, idx))
    bg = sc.get("bg")
    if bg and with_bg and sc.get("end", ["exit", 0])[0] in ("exit", "sig"):
        for idx, st in enumerate(bg["steps"]):
            if st[0] == "out" and bg["stream"] == "out":
                out += sim.gen_bytes(st[1], "%s~bg.%dout" % (name, idx))
            elif st[0] == "err" and bg["stream"] == "err":
                err += sim.gen_bytes(st[1], "%s~bg.%derr" % (name, idx))
    return out, err


def expected_files(op, task, execno=0):
    """{relpath: bytes} of the files a complete execution writes below its COND_OUT (last write wins)"""
    sc = script_of(op, task, execno)
    files = {}
    name = "%s#%d" % (task, execno)
    for idx, st in enumerate(sc.get("steps", [])):
        if st[0] == "file":
            files[os.path.normpath(st[1])] = sim.gen_bytes(st[2], "%s.%dfile" % (name, idx))
    return files


def sha(b):
    return hashlib.sha1(b).hexdigest()


def check_version_dir(scn, op, task, ts, tree, root, execno=0, with_bg=True):
    """Is cond-out/<task dir>.<ts> a complete output of a successful execution of `task` under `op`?
    Returns a list of (what, detail)."""
    rel = M.out_dir_rel(task, ts)
    probs = []
    if tree.get(rel) != ("d",):
        return [("recorded-version-without-directory", {"dir": rel})]
    out, err = expected_streams(op, task, execno, with_bg)
    want = {"stdout.log": out, "stderr.log": err}
    want.update(expected_files(op, task, execno))
    for name, data in sorted(want.items()):
        got = tree.get(rel + "/" + name)
        if got is None:
            probs.append(("recorded-version-misses-file", {"dir": rel, "file": name}))
        elif got[0] != "f" or got[1] != sha(data):
            probs.append(("recorded-version-has-incomplete-file",
                          {"dir": rel, "file": name, "size": got[2] if got[0] == "f" else None,
                           "expected_size": len(data)}))
    d = scn["tasks"][task]
    for fname, val in (("args.json", d.get("args") or None), ("options.json", d.get("options") or None)):
        got = tree.get(rel + "/" + fname)
        if val is None:
            if got is not None:
                probs.append(("record-file-present-although-empty", {"dir": rel, "file": fname}))
            continue
        if got is None:
            probs.append(("recorded-version-misses-file", {"dir": rel, "file": fname}))
            continue
        try:
            decoded = json.loads(got[3])
        except Exception as ex:  # noqa
            probs.append(("record-file-does-not-decode", {"dir": rel, "file": fname, "error": str(ex)[:100]}))
            continue
        if decoded != val or not _same_types(decoded, val):
            probs.append(("record-file-decodes-to-other-values",
                          {"dir": rel, "file": fname, "got": decoded, "expected": val}))
    return probs


def _same_types(a, b):
    if isinstance(a, list) and isinstance(b, list):
        return len(a) == len(b) and all(_same_types(x, y) for x, y in zip(a, b))
    if isinstance(a, dict) and isinstance(b, dict):
        return set(a) == set(b) and all(_same_types(a[k], b[k]) for k in a)
    if isinstance(a, bool) or isinstance(b, bool):
        return isinstance(a, bool) and isinstance(b, bool)
    if isinstance(a, (int, float)) and isinstance(b, (int, float)):
        return isinstance(a, float) == isinstance(b, float) or float(a) == float(b)
    return type(a) is type(b)


def subtree(tree, rel):
    pre = rel + "/"
    return {k: v for k, v in tree.items() if k == rel or k.startswith(pre)}


_ARCH_CACHE = {}


def archive_trees(path):
    """{dir rel: subtree} of the version directories inside an archive (read with tarfile, not tar)"""
    key = (str(path), os.path.getmtime(path) if os.path.exists(path) else None)
    if key in _ARCH_CACHE:
        return _ARCH_CACHE[key]
    tmp = tempfile.mkdtemp(prefix="cverif-at-", dir=os.path.dirname(str(path)))
    try:
        try:
            with tarfile.open(path, "r:gz") as tf:
                tf.extractall(tmp, filter="fully_trusted")
        except Exception:
            _ARCH_CACHE[key] = None
            return None
        t = sim.tree_of(tmp)
    finally:
        import shutil

        shutil.rmtree(tmp, ignore_errors=True)
    _ARCH_CACHE[key] = t
    return t


def successful_execs(trace):
    """names (task#k) of executions whose child exited with status 0"""
    ok = set()
    for e in trace:
        if e[0] == "exit" and e[3] == 0:
            ok.add(e[1])
    return ok
