"""Fault enumerations: process kill at every syscall-adjacent instant (fork + os._exit) and
SIGINT/SIGTERM at every interpreter check point, for one operation of a history."""
import copy
import hashlib
import json
import os
import pathlib
import random
import shutil

from . import model as M
from . import runner, sim


def _clone_work(work, tag):
    dst = pathlib.Path(str(work) + "-" + tag)
    if dst.exists():
        runner._safe_rmtree(dst)
    shutil.copytree(work, dst, symlinks=True)
    return dst


def _retarget(op, work, dst):
    """op with every absolute path below `work` moved to `dst`"""
    s = json.dumps(op)
    s = s.replace(str(work), str(dst))
    return json.loads(s)


class SubWorld:
    """a copy of the world (disk + simulator state) in which one operation is executed"""

    def __init__(self, world, work, tag):
        self.src_world = world
        self.work = work
        self.dst = _clone_work(work, tag)
        w = sim.Sim(self.dst / "proj", world.scn, world.seed, world.plans)
        w.clock = world.clock
        w.sim_seconds = 0.0
        w.git_state = copy.deepcopy(world.git_state)
        w.git = sim.FakeGit(w.git_state)
        w.inv_index = world.inv_index
        w.disable_git = getattr(world, "disable_git", False)
        self.world = w

    def op(self, op):
        return _retarget(op, self.work, self.dst)

    def close(self):
        runner._safe_rmtree(self.dst)


def choose_ks(total, budget, r, dense_ranges=()):
    """which of the instants 1..total to try: everything if it fits, else a seeded sample that is
    half uniform and half concentrated in the given (lo, hi) ranges"""
    if total <= budget:
        return list(range(1, total + 1)), True
    ks = set()
    dense = [k for lo, hi in dense_ranges for k in range(max(1, lo), min(total, hi) + 1)]
    r.shuffle(dense)
    for k in dense[: budget // 2]:
        ks.add(k)
    while len(ks) < budget:
        ks.add(r.randint(1, total))
    return sorted(ks), False


def kill_enumeration(world, op, work, budget, r, evaluate):
    """evaluate(k, inv, sub_root, where) -> list of violations; returns (records, total, exhaustive)"""
    # dry run on a copy, to number the instants
    sw = SubWorld(world, work, "dry")
    try:
        inv0 = runner.run_forked(sw.world, sw.op(dict(op, kill=None)), sw.dst)
    finally:
        sw.close()
    total = inv0.ki
    dense = _dense_ranges(inv0)
    ks, exhaustive = choose_ks(total, budget, r, dense)
    records = []
    for k in ks:
        sw = SubWorld(world, work, "k%d" % k)
        try:
            inv = runner.run_forked(sw.world, sw.op(dict(op, kill=k)), sw.dst)
            snap = sim.snapshot(sw.dst / "proj")
            viol = evaluate(k, inv, snap, sw)
            records.append({"k": k, "killed": inv.killed, "where": inv.kill_where, "violations": viol})
        finally:
            sw.close()
    return records, total, exhaustive


def _dense_ranges(inv0):
    """instants around the interesting writes: we only know the total in the dry run, so use the
    last third (finish_execution / commit / copy loop live there) as the dense region"""
    t = inv0.ki
    return [(int(t * 0.55), t)]


def signal_enumeration(world, op, work, budget, r, evaluate, sigs=("INT", "TERM")):
    sw = SubWorld(world, work, "dry")
    try:
        inv0 = sw.world.run_cond(sw.op(dict(op)))
    finally:
        sw.close()
    total = inv0.cp
    if total == 0 and any(e[0] == "spawn" for e in inv0.trace):
        # the window in which signals are delivered opens when the program installs its SIGTERM handler
        return [{"k": 0, "sig": "TERM", "where": "-", "code": inv0.code, "fired": False, "inflight": 0, "killed": False,
                 "violations": [("no-SIGTERM-handler-installed-while-tasks-were-running", {"exit": inv0.code})]}], 0, True
    # half of a sample goes where the signal meets work in progress: the check points at which at least
    # one task process is in flight, plus the stretch right after each reap (finish_execution, recording
    # the version, destructors of the handle)
    dense, depth, lo = [], 0, None
    for cp, d in sorted(getattr(inv0, "cp_marks", []), key=lambda x: x[0]):
        if d > 0 and depth == 0:
            lo = cp
        depth += d
        if depth == 0 and lo is not None:
            dense.append((lo, cp + 40))
            lo = None
    if lo is not None:
        dense.append((lo, total))
    stall = getattr(inv0, "stall_cps", None)
    if stall:
        # ... and where the main thread sits in a write() to its own stalled stdout, or evaluates user code
        # (COND files, included files)
        dense = [(k_, k_) for k_ in sorted(set(stall))[:60]] + dense
    ks, exhaustive = choose_ks(total, budget, r, dense or [(1, total)])
    records = []
    for k in ks:
        sig = sigs[k % len(sigs)] if len(sigs) > 1 else sigs[0]
        if "INT" in op.get("sig_ign", []):
            sig = "INT"     # the interesting one when SIGINT was inherited as ignored
        sw = SubWorld(world, work, "s%d" % k)
        try:
            sg = {"sig": sig, "cp": k}
            if op.get("second_signal"):
                # a second signal a few check points later: it lands while the first one is being handled
                # (the SIGTERM loop, the abort report, the unwinding of the command); the distance is a
                # function of (seed, k) only, so a replay repeats it
                r2 = random.Random("%s/%d" % (op.get("second_signal"), k))
                sg["then"] = [{"sig": r2.choice(sigs), "after": int(10 ** r2.uniform(0, 2.4))}]
            inv = sw.world.run_cond(sw.op(dict(op, signal=sg)))
            snap = sim.snapshot(sw.dst / "proj")
            viol = evaluate(k, sig, inv, snap, sw)
            sent = [e for e in inv.trace if e[0] == "sigsent"]
            again = [e for e in inv.trace if e[0] == "sigsent_again"]
            records.append({"k": k, "sig": sig, "where": inv.sig_where, "violations": viol,
                            "code": inv.code, "fired": bool(sent), "again": len(again),
                            "again_inflight": len(again[0][4]) if again else 0,
                            "inflight": len(sent[0][4]) if sent else 0, "killed": False})
        finally:
            sw.close()
    return records, total, exhaustive
