import sys, types, random, pathlib, tempfile, shutil, time, os, signal, collections
sys.path.insert(0, "/tmp/scratch")
import e3, subprocess
mon=sys.monitoring; TOOL=3; mon.use_tool_id(TOOL,"sim"); E=mon.events
st={"n":0,"target":None,"in":False,"where":None,"p_exit":0.0,"rng":None}
def instant():
    if st["in"]: return
    if st["rng"].random()<st["p_exit"]:
        st["in"]=True
        try: e3.K.exit_one()
        finally: st["in"]=False
def checkpoint(code, off):
    if st["in"]: return
    instant()
    st["in"]=True
    try:
        if e3.K.pending: e3.K.deliver()
    finally: st["in"]=False
    st["n"]+=1
    if st["n"]==st["target"]:
        st["where"]=(code.co_filename.split("/")[-1], code.co_name, off)
        h=e3.K.handlers.get(signal.SIGINT)
        h(signal.SIGINT,None)
mon.register_callback(TOOL,E.LINE,lambda c,l: instant())
mon.register_callback(TOOL,E.PY_START,lambda c,o: checkpoint(c,o))
mon.register_callback(TOOL,E.CALL,lambda c,o,f,a: instant())
mon.register_callback(TOOL,E.C_RETURN,lambda c,o,f,a: checkpoint(c,o))
mon.register_callback(TOOL,E.C_RAISE,lambda c,o,f,a: checkpoint(c,o))
import e4
if __name__=="__main__":
    e3.install(); 
    # reuse e4.enable's code discovery but with our callbacks (already registered above; e4 registered its own first -> override)
    mon.register_callback(TOOL,E.LINE,lambda c,l: instant())
    mon.register_callback(TOOL,E.PY_START,lambda c,o: checkpoint(c,o))
    mon.register_callback(TOOL,E.CALL,lambda c,o,f,a: instant())
    mon.register_callback(TOOL,E.C_RETURN,lambda c,o,f,a: checkpoint(c,o))
    mon.register_callback(TOOL,E.C_RAISE,lambda c,o,f,a: checkpoint(c,o))
    print("codes", e4.enable())
    root=pathlib.Path(tempfile.mkdtemp(prefix="simp", dir="/dev/shm"))
    (root/"cond_config.toml").write_text("disable_git = true\n")
    (root/"COND").write_text('''
run_experiment(name="a", run="sim a", deps=[":b", ":c"], parallelizable=True)
run_experiment(name="b", run="sim b", deps=[":d"], parallelizable=True)
run_experiment(name="c", run="sim c", deps=[":d"], parallelizable=True)
run_command(name="d", run="sim d")
''')
    import conductor.utils.sigchld as sc
    def one(target, seed):
        e3.K=e3.Kernel(random.Random(seed)); st.update(n=0,target=target,where=None,rng=random.Random(seed+99),p_exit=0.002)
        subprocess._active.clear(); sc.SigchldHelper._Instance=None
        try:
            code,out,err=e3.run_cond(["run","//:a","-j","2","--again"], str(root))
            kind="exit%d"%code + (":aborted" if "abort" in (out+err).lower() else "")
        except BaseException as ex:
            kind="INTERNAL:"+type(ex).__name__
            sys.stdout=sys.__stdout__; sys.stderr=sys.__stderr__
        K=e3.K
        live={p.pid for p in K.procs.values() if p.state!="reaped"}
        killed={e[1] for e in K.events if e[0]=="killpg"}
        leaked=live-killed
        return kind, bool(leaked)
    kind,_=one(None,1); total=st["n"]; print("baseline",kind,"checkpoints",total)
    res=collections.Counter(); ex={}
    for k in range(1,total+1):
        kind,leak=one(k,1)
        key=(kind,leak)
        res[key]+=1
        if key not in ex or (leak or kind.startswith("INTERNAL")) and len(ex.setdefault(("list",)+key,[]))<6:
            ex.setdefault(key, st["where"]); 
            if leak or kind.startswith("INTERNAL"): ex.setdefault(("list",)+key,[]).append(st["where"])
    for k,v in res.items(): print(k,v)
    for k,v in ex.items():
        if k[0]=="list": print(k, v)
    shutil.rmtree(root)
