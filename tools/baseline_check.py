#!/venv/bin/python
"""Runs the repository's pinned test command and checks that every test in BASELINE.stable_pass passes."""
import json, subprocess, sys, tempfile, xml.etree.ElementTree as ET, os
base = json.load(open("/root/.vp/BASELINE.json"))
out = tempfile.mktemp(suffix=".xml")
cmd = base["cmd"].replace("<file>", out)
subprocess.run(cmd, shell=True, stdout=subprocess.DEVNULL, stderr=subprocess.DEVNULL)
passed = set()
for tc in ET.parse(out).getroot().iter("testcase"):
    if not any(c.tag in ("failure", "error", "skipped") for c in tc):
        passed.add("%s::%s" % (tc.get("classname"), tc.get("name")))
os.unlink(out)
missing = [t for t in base["stable_pass"] if t not in passed]
print("baseline: %d/%d stable tests pass" % (len(base["stable_pass"]) - len(missing), len(base["stable_pass"])))
for m in missing: print("  MISSING", m)
sys.exit(1 if missing else 0)
