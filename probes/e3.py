import os, sys, time, errno, signal, select, subprocess, types, random, io, contextlib, argparse, pathlib, tempfile, shutil
real_fork_exec = subprocess._fork_exec
real_waitpid = os.waitpid; real_getpgid = os.getpgid; real_killpg = os.killpg
real_signal = signal.signal
FAKE_BASE = 5_000_000

class Proc:
    def __init__(s, pid, argv, cwd, env, fds):
        s.pid=pid; s.argv=argv; s.cwd=cwd; s.env=env; s.fds=fds; s.state="running"; s.status=None; s.sigs=[]
class Kernel:
    def __init__(s, rng):
        s.rng=rng; s.procs={}; s.next=FAKE_BASE; s.handlers={}; s.pending=[]; s.events=[]; s.script={}
    def fork_exec(s, args, executable_list, close_fds, fds_to_keep, cwd, env_list, p2cread,p2cwrite,c2pread,c2pwrite,errread,errwrite,errpipe_read,errpipe_write,restore_signals,call_setsid,pgid_to_set,gid,gids,uid,umask,preexec_fn,use_vfork):
        if executable_list != (b"/bin/bash",):
            return real_fork_exec(args, executable_list, close_fds, fds_to_keep, cwd, env_list, p2cread,p2cwrite,c2pread,c2pwrite,errread,errwrite,errpipe_read,errpipe_write,restore_signals,call_setsid,pgid_to_set,gid,gids,uid,umask,preexec_fn,use_vfork)
        pid=s.next; s.next+=1
        env=dict(e.decode().split("=",1) for e in env_list)
        fds={}
        for name,fd in (("out",c2pwrite),("err",errwrite)):
            if fd!=-1: fds[name]=os.dup(fd)
        p=Proc(pid,[a if isinstance(a,str) else a.decode() for a in args],cwd,env,fds)
        s.procs[pid]=p
        s.events.append(("spawn",pid,env["COND_NAME"],env.get("COND_SLOT")))
        return pid
    def exit_one(s):
        running=[p for p in s.procs.values() if p.state=="running"]
        if not running: return False
        p=s.rng.choice(running)
        name=p.env["COND_NAME"]
        code=s.script.get(name,0)
        if "out" in p.fds: os.write(p.fds["out"], f"hello from {name}\n".encode())
        for fd in p.fds.values(): os.close(fd)
        p.state="zombie"; p.status=code<<8
        s.events.append(("exit",p.pid,name,code))
        s.pending.append(signal.SIGCHLD)
        return True
    def deliver(s):
        while s.pending:
            sig=s.pending.pop(0)
            h=s.handlers.get(sig)
            if callable(h): h(sig,None)
    def waitpid(s,pid,flags):
        if pid==-1:
            z=[p for p in s.procs.values() if p.state=="zombie"]
            if z:
                p=z[0]; p.state="reaped"; s.events.append(("reap",p.pid,"handler")); return p.pid,p.status
            if any(p.state=="running" for p in s.procs.values()): return 0,0
            raise ChildProcessError(errno.ECHILD,"no child")
        if pid>=FAKE_BASE:
            p=s.procs.get(pid)
            if p is None or p.state=="reaped": raise ChildProcessError(errno.ECHILD,"no child")
            if p.state=="zombie":
                p.state="reaped"; s.events.append(("reap",pid,"direct:"+sys._getframe(1).f_code.co_name)); return pid,p.status
            assert flags & os.WNOHANG
            return 0,0
        return real_waitpid(pid,flags)
    def getpgid(s,pid):
        if pid>=FAKE_BASE:
            p=s.procs.get(pid)
            if p is None or p.state=="reaped": raise ProcessLookupError(errno.ESRCH,"no proc")
            return pid
        return real_getpgid(pid)
    def killpg(s,pg,sig):
        if pg>=FAKE_BASE:
            s.events.append(("killpg",pg,sig)); return
        return real_killpg(pg,sig)
    def signal(s,sig,h):
        if sig in (signal.SIGCHLD,signal.SIGINT,signal.SIGTERM):
            old=s.handlers.get(sig,signal.SIG_DFL); s.handlers[sig]=h; return old
        return real_signal(sig,h)

K=None
class SigchldOS:
    def __getattr__(s,n): return getattr(os,n)
    def read(s,fd,n):
        while True:
            K.deliver()
            r,_,_=select.select([fd],[],[],0)
            if r: return os.read(fd,n)
            if not K.exit_one():
                raise RuntimeError("DEADLOCK: blocked in read with no running children")

def install():
    subprocess._fork_exec=lambda *a: K.fork_exec(*a)
    os.waitpid=lambda p,f: K.waitpid(p,f)
    d=list(subprocess.Popen._internal_poll.__defaults__); d[1]=os.waitpid
    subprocess.Popen._internal_poll.__defaults__=tuple(d)
    os.getpgid=lambda p: K.getpgid(p); os.killpg=lambda p,s_: K.killpg(p,s_)
    signal.signal=lambda s_,h: K.signal(s_,h)
    import conductor.utils.sigchld as sc
    sc.os=SigchldOS()

def run_cond(argv, cwd):
    import conductor.__main__ as m
    old=sys.argv, os.getcwd()
    sys.argv=["cond"]+argv; os.chdir(cwd)
    ob=io.BytesIO(); eb=io.BytesIO(); out=io.TextIOWrapper(ob,encoding="utf-8",errors="replace",write_through=True); err=io.TextIOWrapper(eb,encoding="utf-8",errors="replace",write_through=True)
    code=0
    try:
        with contextlib.redirect_stdout(out), contextlib.redirect_stderr(err):
            m.main()
    except SystemExit as e:
        code=e.code if isinstance(e.code,int) else (0 if e.code is None else 1)
    finally:
        sys.argv=old[0]; os.chdir(old[1])
    return code,ob.getvalue().decode("utf-8","replace"),eb.getvalue().decode("utf-8","replace")

if __name__=="__main__":
    install()
    root=pathlib.Path(tempfile.mkdtemp(prefix="simp", dir="/dev/shm"))
    (root/"cond_config.toml").write_text("disable_git = true\n")
    (root/"COND").write_text('''
run_experiment(name="a", run="sim a", deps=[":b", ":c"], parallelizable=True)
run_experiment(name="b", run="sim b", deps=[":d"], parallelizable=True)
run_experiment(name="c", run="sim c", deps=[":d"], parallelizable=True)
run_command(name="d", run="sim d")
''')
    t0=time.time(); N=200
    for seed in range(N):
        K=Kernel(random.Random(seed)); K.script={"c":3} if seed%3==0 else {}
        code,out,err=run_cond(["run","//:a","-j","2","--again"], str(root))
        if seed<2:
            print(seed, code); print(K.events)
    dt=time.time()-t0
    print("runs/s", N/dt)
    print(out[-400:]); print(err[-300:])
    shutil.rmtree(root)
