import sys, random, pathlib, tempfile, shutil, hashlib, subprocess, os
sys.path.insert(0,"/tmp/scratch")
import e3, e4
e3.install(); e4.enable()
import conductor.utils.sigchld as sc
root=pathlib.Path(tempfile.mkdtemp(prefix="simp", dir="/dev/shm"))
(root/"cond_config.toml").write_text("disable_git = true\n")
(root/"COND").write_text('''
run_experiment(name="a", run="sim a", deps=[":b", ":c"], parallelizable=True)
run_experiment(name="b", run="sim b", deps=[":d"], parallelizable=True)
run_experiment(name="c", run="sim c", deps=[":d"], parallelizable=True)
run_command(name="d", run="sim d")
''')
h=hashlib.sha256()
for seed in range(int(sys.argv[1])):
    e3.K=e3.Kernel(random.Random(seed)); e4.state.update(rng=random.Random(seed*7+1),p=0.01,n=0)
    subprocess._active.clear(); sc.SigchldHelper._Instance=None
    try:
        code,out,err=e3.run_cond(["run","//:a","-j","2","--again"], str(root)); r=str(code)
    except RuntimeError as ex: r="DEAD"
    h.update(repr((seed,r,e4.state["n"],e3.K.events)).encode())
print(h.hexdigest())
shutil.rmtree(root)
