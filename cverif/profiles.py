"""Per-property scenario profiles (generator weights, enabled faults) – swarm style: every scenario
draws its own sizes, workload mix, fault subset and scheduler knobs."""
import random

from . import scenario as S

KW_PROC = {"exp": 5, "cmd": 3, "group": 1, "combine": 1}
KW_EXP = {"exp": 8, "cmd": 1, "group": 1, "combine": 1}
KW_ALL = {"exp": 4, "cmd": 3, "group": 2, "combine": 2}


def _pkgs(r):
    k = r.choice([1, 1, 2, 3])
    return r.sample(S.PKGS, k) if r.random() < 0.7 else [""] + r.sample(S.PKGS[1:], k - 1)


def _jobs(r, choices=(None, 1, 2, 3, 4, 8, "auto")):
    return r.choice(choices)


def _scripts(r, tasks, needed_hint, fail_p=0.0, fail_kinds=None, out=False, files=True,
             instant_p=0.0, hang_ok=False):
    scripts = {}
    for t, d in tasks.items():
        if d["kind"] not in ("exp", "cmd"):
            continue
        fail = None
        if r.random() < fail_p:
            fail = dict(r.choice(fail_kinds or S.FAIL_KINDS))
        sc = S.simple_script(r, t, d["kind"], fail=fail, files=files, out=out)
        if r.random() < instant_p:
            sc["instant_exit"] = True
        if r.random() < 0.15:
            sc["term_delay"] = r.choice([1, 2, 5])
        scripts[t] = [sc, S.simple_script(r, t, d["kind"], files=files, out=out)]
    return scripts


def _run_op(r, tasks, *, jobs_choices, again_p=0.3, stop_early_p=0.0, fail_p=0.0, fail_kinds=None,
            out=False, files=True, instant_p=0.0, cwds=("",), gap=None, target=None):
    flags = {}
    if r.random() < again_p:
        flags["again"] = True
    if r.random() < stop_early_p:
        flags["stop_early"] = True
    j = _jobs(r, jobs_choices)
    if j is not None:
        flags["jobs"] = j
    op = {"op": "run", "target": target or S.pick_target(r, tasks), "flags": flags,
          "cwd": r.choice(list(cwds)),
          "gap": gap if gap is not None else r.choice([0.0, 0.3, 1.0, 2.0, 5.0, 3600.0]),
          "scripts": _scripts(r, tasks, None, fail_p=fail_p, fail_kinds=fail_kinds, out=out, files=files,
                              instant_p=instant_p)}
    return op


def _base(r, n=(2, 8), kinds=KW_PROC, p_par=0.6, mon=None, p_async=(0.0, 1e-3, 1e-2, 5e-2)):
    pk = _pkgs(r)
    tasks = S.gen_graph(r, r.randint(*n), kinds, pk, p_par=p_par)
    scn = {"epoch": 1_700_000_000 + r.randrange(10**6), "tasks": tasks, "pkgs": pk + ["nocond"],
           "git": {"mode": "none"}, "disable_git": r.random() < 0.5, "history": [],
           "knobs": S.gen_knobs(r, mon=mon, p_async_choices=p_async)}
    return scn


# ---------------------------------------------------------------------------------------------

def gen_C09(r):
    """many short tasks, every exit instant, bursts, instant exits, stray children, -j 1..8"""
    scn = _base(r, n=(2, 9), kinds={"exp": 6, "cmd": 3, "group": 1, "combine": 1}, p_par=0.75,
                mon=True, p_async=(1e-3, 1e-2, 1e-2, 5e-2, 0.15))
    for _ in range(r.choice([1, 1, 2])):
        op = _run_op(r, scn["tasks"], jobs_choices=(None, 1, 2, 2, 3, 4, 8), again_p=0.6,
                     fail_p=r.choice([0.0, 0.0, 0.2]), files=False, instant_p=r.choice([0.0, 0.0, 0.3]),
                     out=r.random() < 0.3)
        if r.random() < 0.25:
            op["stray"] = r.randint(1, 2)
        scn["history"].append(op)
    return scn


def gen_C01(r):
    scn = _base(r, n=(3, 9), kinds=KW_ALL, p_par=0.6, mon=None)
    for _ in range(r.choice([1, 2, 3])):
        scn["history"].append(_run_op(r, scn["tasks"], jobs_choices=(None, 1, 2, 3, 4), again_p=0.4,
                                      fail_p=r.choice([0.0, 0.0, 0.15]), files=False))
    return scn


def gen_C02(r):
    scn = _base(r, n=(3, 9), kinds=KW_ALL, p_par=0.5, mon=False, p_async=(0.0,))
    # keep git simple here (none / disabled / linear); DAG-shaped histories belong to C05
    for _ in range(r.choice([1, 2, 3, 4])):
        scn["history"].append(_run_op(r, scn["tasks"], jobs_choices=(None, None, 2, 4), again_p=0.25,
                                      fail_p=r.choice([0.0, 0.0, 0.0, 0.2]), files=False,
                                      target=r.choice(list(scn["tasks"])) if r.random() < 0.5 else None))
    if r.random() < 0.2:
        scn["history"][-1]["flags"]["check"] = True
    return scn


def gen_C03(r):
    scn = _base(r, n=(3, 9), kinds=KW_ALL, p_par=0.6, mon=None)
    for _ in range(r.choice([1, 1, 2])):
        scn["history"].append(_run_op(r, scn["tasks"], jobs_choices=(None, 1, 2, 3, 4), again_p=0.5,
                                      stop_early_p=0.35, fail_p=r.choice([0.15, 0.3, 0.5]), files=False))
    return scn


def gen_C04(r):
    scn = _base(r, n=(3, 9), kinds=KW_ALL, p_par=0.7, mon=None)
    for _ in range(r.choice([1, 2])):
        op = _run_op(r, scn["tasks"], jobs_choices=(None, 1, 2, 2, 3, 4, 8, "auto"), again_p=0.6,
                     fail_p=r.choice([0.0, 0.0, 0.2]), files=False)
        if r.random() < 0.25:
            op["env"] = {"COND_SLOT": str(r.choice([0, 3, 7])), "COND_NAME": "outer"}
        scn["history"].append(op)
    return scn


GEN = {"C01": gen_C01, "C02": gen_C02, "C03": gen_C03, "C04": gen_C04, "C09": gen_C09}
