# Probe: kill `cond restore` at the k-th syscall-adjacent instant in a forked copy of the simulator;
# the parent then inspects rows/dirs.  Uses e3's world + e4's code discovery.
import sys, os, random, pathlib, tempfile, shutil, sqlite3, subprocess, collections, time, types
sys.path.insert(0,"/tmp/scratch")
import e3, e4
mon=sys.monitoring; TOOL=3; E=mon.events
st={"n":0,"kill":None}
def crash_instant():
    st["n"]+=1
    if st["n"]==st["kill"]: os._exit(137)
mon.register_callback(TOOL,E.LINE,None); mon.register_callback(TOOL,E.PY_START,None)
mon.register_callback(TOOL,E.CALL,lambda c,o,f,a: crash_instant() if not isinstance(f,types.FunctionType) else None)
mon.register_callback(TOOL,E.C_RETURN,lambda c,o,f,a: crash_instant())
mon.register_callback(TOOL,E.C_RAISE,lambda c,o,f,a: crash_instant())
e3.install(); e4.enable()
seen=set()
for f in (shutil.copytree, shutil._copytree, shutil.copy2, shutil.copyfile, shutil.rmtree): e4.codes_of(f, seen)
for c in seen: mon.set_local_events(TOOL,c,E.CALL)
import conductor.utils.sigchld as sc
root=pathlib.Path(tempfile.mkdtemp(prefix="simp", dir="/dev/shm"))
(root/"cond_config.toml").write_text("disable_git = true\n")
(root/"COND").write_text('run_experiment(name="a", run="sim a", deps=[":b"])\nrun_experiment(name="b", run="sim b")\n')
def cond(*argv):
    e3.K=e3.Kernel(random.Random(0)); subprocess._active.clear(); sc.SigchldHelper._Instance=None
    return e3.run_cond(list(argv), str(root))
def rows():
    p=root/"cond-out"/"version_index.sqlite"
    if not p.exists(): return []
    c=sqlite3.connect(p)
    try: r=sorted(c.execute("select task_identifier,timestamp from version_index").fetchall())
    except sqlite3.OperationalError: r=[]; st.setdefault("notable",0); st["notable"]+=1
    c.close(); return r
st["kill"]=None
print(cond("run","//:a")[0], cond("run","//:a","--again")[0]); before=rows(); print(before)
arch=str(root/"arch.tgz"); print(cond("archive","-o",arch)[0])
print(cond("clean","-f")[0], rows())
st["n"]=0; code,out,err=cond("restore",arch); total=st["n"]; print("restore rc",code,"instants",total,"rows",len(rows()))
outcomes=collections.Counter(); t0=time.time(); bad=[]
for k in range(1,total+1):
    cond("clean","-f"); st["kill"]=None
    pid=os.fork()
    if pid==0:
        st["n"]=0; st["kill"]=k
        try: cond("restore",arch)
        finally: os._exit(0)
    _,status=e3.real_waitpid(pid,0)
    r=rows()
    dirs=sorted(p.name for p in (root/"cond-out").glob("*.task.*"))
    ok = (r==[] or r==before) and all((root/"cond-out"/f"{t[2:].replace(':','')}.task.{ts}").is_dir() for t,ts in r)
    outcomes[(os.waitstatus_to_exitcode(status), len(r), len(dirs))]+=1
    if not ok: bad.append((k,r,dirs))
print("per-kill %.1f ms"%((time.time()-t0)/total*1000))
for k,v in sorted(outcomes.items()): print(k,v)
print("violations:", bad[:3], "index-without-table:", st.get("notable"))
shutil.rmtree(root)
