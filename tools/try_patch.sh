#!/bin/bash
# usage: tools/try_patch.sh <patch.diff> <PROP> [<PROP> ...]     (env COUNT / TIER optional)
# Applies the patch to a scratch copy of /repo/src under /dev/shm and runs the given checks against it
# (CVERIF_SRC), without touching /repo.  Prints one line per property.
set -u
patch=$(readlink -f "$1"); shift
scratch=$(mktemp -d /dev/shm/cverif-mut.XXXXXX)
mkdir -p "$scratch/repo"
(cd /repo && git archive HEAD) | tar -x -C "$scratch/repo"
# uncommitted edits of /repo/src are part of "the current tree"
rsync -a --delete /repo/src/ "$scratch/repo/src/"
if ! (cd "$scratch/repo" && git init -q . 2>/dev/null; git -C "$scratch/repo" apply "$patch"); then
  echo "PATCH-DOES-NOT-APPLY $patch"; rm -rf "$scratch"; exit 3
fi
for p in "$@"; do
  out=$(cd /verif && CVERIF_SRC="$scratch/repo/src" timeout 900 ./check "$p" --tier "${TIER:-quick}" --no-evidence ${COUNT:+--count $COUNT} ${NOSHRINK:+--no-shrink} 2>&1)
  rc=$?
  nsig=$(echo "$out" | grep -c '^VIOLATION')
  echo "$p rc=$rc violations=$nsig :: $(echo "$out" | grep -E '^  signature' | head -4 | sed 's/^  signature: //' | tr '\n' ';' | cut -c1-400)"
  if [ "${VERBOSE:-}" ]; then echo "$out" | tail -15; fi
done
rm -rf "$scratch"
