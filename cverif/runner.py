"""Executes a scenario's history against the real Conductor code inside the simulator and records
everything the oracles need (per operation: invocation record, disk snapshots, git state)."""
import copy
import gzip
import io
import json
import os
import pathlib
import pickle
import shutil
import sqlite3
import subprocess
import tarfile
import tempfile

from . import sim
from . import scenario as S

SHM = "/dev/shm" if os.path.isdir("/dev/shm") and os.access("/dev/shm", os.W_OK) else tempfile.gettempdir()


class Step:
    """one operation of the history, as executed"""

    def __init__(self, op):
        self.op = op
        self.inv = None
        self.before = None
        self.after = None
        self.git = None
        self.disable_git = None
        self.clock = None
        self.note = None
        self.archive_info = None
        self.archive_path = None
        self.foreign = None


class Run:
    def __init__(self, scn, seed):
        self.scn = scn
        self.seed = seed
        self.steps = []
        self.stats = {}
        self.root = None
        self.sim_seconds = 0.0
        self.error = None


def _safe_rmtree(p):
    p = str(p)
    if p.startswith(SHM + "/cverif-") or p.startswith(tempfile.gettempdir() + "/cverif-"):
        shutil.rmtree(p, ignore_errors=True)


def new_workdir():
    return pathlib.Path(tempfile.mkdtemp(prefix="cverif-%d-" % os.getpid(), dir=SHM))


def corrupt_archive(src, dst, how, r_seed, root=None):
    """single corruptions of an archive (DESIGN.md C12)"""
    import random

    r = random.Random(r_seed)
    kind = how["kind"]
    if kind in ("escape_dotdot", "escape_symlink"):
        # a hand-made / hostile archive: the genuine members plus one whose name leads out of the staging
        # directory (which lives inside cond-out), aimed at a file of an already recorded version
        import io as _io

        victim_dir, victim_file = "no-such.task.1", "planted.txt"
        rows_ = sim.read_rows(root) if root is not None else None
        if isinstance(rows_, list) and rows_:
            from . import model as _M5

            rr = rows_[how.get("idx", 0) % len(rows_)]
            victim_dir = _M5.out_dir_rel(rr[0], rr[1])
            files = sorted(p_.name for p_ in (pathlib.Path(root) / "cond-out" / victim_dir).glob("*") if p_.is_file())
            if files:
                victim_file = files[0]
        with tarfile.open(src, "r:gz") as tin, tarfile.open(dst, "w:gz") as tout:
            for m in tin.getmembers():
                tout.addfile(m, tin.extractfile(m) if m.isfile() else None)
            data = b"written by a member that escaped the staging directory"
            if kind == "escape_dotdot":
                ti = tarfile.TarInfo("../%s/%s" % (victim_dir, victim_file))
                ti.size = len(data)
                tout.addfile(ti, _io.BytesIO(data))
            else:
                ti = tarfile.TarInfo("extra-link")
                ti.type = tarfile.SYMTYPE
                ti.linkname = "../" + victim_dir
                tout.addfile(ti)
                ti = tarfile.TarInfo("extra-link/" + victim_file)
                ti.size = len(data)
                tout.addfile(ti, _io.BytesIO(data))
        return
    if kind == "truncate":
        # The tar stream is cut, inside a valid gzip container.  (Cutting the compressed bytes makes the
        # real tar race with its gzip child - how many members it extracts before noticing differs from
        # run to run - which no seed can replay; the truncated *tar* is deterministic and exercises the
        # same paths: some members extracted, then a failing tar.)
        raw = gzip.decompress(pathlib.Path(src).read_bytes())
        cut = max(1, int(len(raw) * how.get("frac", 0.5)))
        with open(dst, "wb") as f:
            with gzip.GzipFile(fileobj=f, mode="wb", mtime=0) as gz:
                gz.write(raw[:cut])
        return
    if kind == "garbage":
        pathlib.Path(dst).write_bytes(b"this is not a tar file" * 10)
        return
    # member-level edits: unpack, edit, repack
    tmp = pathlib.Path(tempfile.mkdtemp(prefix="cverif-arch-", dir=SHM))
    try:
        with tarfile.open(src, "r:gz") as tf:
            tf.extractall(tmp, filter="fully_trusted")
        if kind == "no_index":
            (tmp / "version_index_archive.sqlite").unlink(missing_ok=True)
        elif kind == "missing_member":
            dirs = sorted(p for p in tmp.rglob("*.task.*") if p.is_dir())
            if dirs:
                shutil.rmtree(dirs[how.get("idx", 0) % len(dirs)])
        elif kind == "index_not_sqlite":
            (tmp / "version_index_archive.sqlite").write_bytes(b"garbage" * 100)
        elif kind == "index_empty":
            # the index member lost its contents (zero bytes): SQLite opens it as an empty database
            (tmp / "version_index_archive.sqlite").write_bytes(b"")
        members = sorted(os.listdir(tmp))
        subprocess.run(["tar", "czf", str(dst), "-C", str(tmp)] + members, check=True)
    finally:
        shutil.rmtree(tmp, ignore_errors=True)


def execute(scn, seed, plans=None, snapshots=True, keep=False, stop_after=None, hook=None):
    """Runs the whole history.  Returns a Run.  `hook(step_index, step, world)` (optional) is called
    before each cond operation and may return a replacement executor (used by the enumerations)."""
    sim.install()
    work = new_workdir()
    root = work / "proj"
    arch = work / "arch"
    arch.mkdir()
    S.materialize(scn, root)
    world = sim.Sim(root, scn, seed, plans)
    world.disable_git = bool(scn.get("disable_git"))
    run = Run(scn, seed)
    run.root = root
    run.work = work
    run.world = world
    try:
        for i, op in enumerate(scn["history"]):
            if stop_after is not None and i > stop_after:
                break
            st = Step(op)
            run.steps.append(st)
            gap = op.get("gap", 0.0)
            if gap:
                world.clock += gap
                world.sim_seconds += abs(gap)
                if gap < 0:
                    world.count("fault.clock_step_back")
            st.clock = world.clock
            st.git = copy.deepcopy(world.git_state)
            k = op["op"]
            if k == "config":
                world.disable_git = bool(op.get("disable_git"))
                (root / "cond_config.toml").write_text("disable_git = true\n" if world.disable_git else "")
                st.disable_git = world.disable_git
                continue
            st.disable_git = world.disable_git
            if k == "git":
                _git_op(world, op)
                continue
            if k == "legacy_index":
                # a project last used with Conductor <= 0.4: version index in format 1
                co = root / "cond-out"
                co.mkdir(exist_ok=True)
                c = sim.REAL.sqlite_connect(str(co / "version_index.sqlite"))
                c.execute("CREATE TABLE version_index (task_identifier TEXT NOT NULL, timestamp INTEGER NOT NULL, "
                          "git_commit TEXT NOT NULL, PRIMARY KEY (task_identifier, timestamp))")
                from . import model as _M2

                for t_, ts_ in op.get("rows", []):
                    c.execute("INSERT INTO version_index VALUES (?, ?, ?)", (t_, ts_, "0" * 40))
                    d_ = co / _M2.out_dir_rel(t_, ts_)
                    d_.mkdir(parents=True, exist_ok=True)
                    (d_ / "stdout.log").write_bytes(b"")
                    (d_ / "stderr.log").write_bytes(b"")
                    (d_ / "old.txt").write_bytes(b"legacy result")
                c.execute("PRAGMA user_version = 1")
                c.commit()
                c.close()
                world.count("fault.legacy_format_1_index")
                continue
            if k == "foreign":
                # the same project checked out elsewhere (another machine): a task is run there at a
                # chosen wall-clock time and everything is archived; the archive is then available here
                root2 = work / "proj2"
                if not root2.exists():
                    S.materialize(scn, root2)
                w2 = sim.Sim(root2, scn, seed ^ 0xF0F0, plans)
                w2.disable_git = True
                (root2 / "cond_config.toml").write_text("disable_git = true\n")
                src_step = op.get("clock_of_step")
                w2.clock = run.steps[src_step].clock if src_step is not None and src_step < len(run.steps) - 1 and \
                    run.steps[src_step].clock is not None else world.clock
                w2.inv_index = 500 + i
                for t in op["targets"]:
                    rop = {"op": "run", "target": t, "flags": {}, "cwd": "", "uid": "f%d-%s" % (i, t),
                           "scripts": op.get("scripts", {})}
                    rop["argv"] = S.op_argv(rop)
                    w2.run_cond(rop)
                aop = {"op": "archive", "out": op["out"], "out_path": str(arch / (op["out"] + ".tar.gz")),
                       "flags": {}, "cwd": "", "uid": "fa%d" % i}
                aop["argv"] = S.op_argv(aop)
                snap2 = sim.snapshot(root2)
                w2.run_cond(aop)
                st.foreign = {"rows": snap2["rows"], "tree": snap2["tree"]}
                world.count("fault.archive_from_another_checkout")
                continue
            if k == "plant":
                _plant(world, root, op)
                if snapshots:
                    st.after = sim.snapshot(root)
                continue
            if k == "wipe":
                # a project that lacks the versions: fresh cond-out, but an archive that `cond archive`
                # put there by default survives (as if it had been carried over by hand)
                co = root / "cond-out"
                if co.is_dir():
                    for p in list(co.iterdir()):
                        if p.name.startswith("cond-archive+") and op.get("keep_archives", True):
                            continue
                        if p.is_dir() and not p.is_symlink():
                            shutil.rmtree(p, ignore_errors=True)
                        else:
                            p.unlink()
                continue
            # a cond invocation
            op = dict(op)
            op.setdefault("uid", str(i))
            if k == "archive" and op.get("out"):
                op["out_path"] = str(arch / (op["out"] + ".tar.gz"))
            if k == "restore":
                src = arch / (op["archive"] + ".tar.gz")
                if op["archive"] == "@default":
                    # the archive that `cond archive` (without -o) left in cond-out
                    cands = sorted((root / "cond-out").glob("cond-archive+*.tar.gz"))
                    src = cands[-1] if cands else (root / "cond-out" / "missing.tar.gz")
                if op.get("corrupt"):
                    dst = arch / ("%s-corrupt-%d.tar.gz" % (op["archive"], i))
                    if src.exists():
                        corrupt_archive(src, dst, op["corrupt"], seed + i, root)
                        world.count("fault.archive_" + op["corrupt"]["kind"])
                    src = dst
                op["archive_path"] = str(src)
                st.archive_path = str(src)
                st.archive_orig_path = str(arch / (op["archive"] + ".tar.gz")) if op["archive"] != "@default" else str(src)
                st.archive_info = _archive_rows(src)
            op["argv"] = S.op_argv(op)
            if str(op.get("cwd", "")).startswith("@"):
                op["cwd"] = _resolve_cwd_token(root, op["cwd"])
            if op.get("env"):
                env = dict(op["env"])
                for ek, ev in list(env.items()):
                    if isinstance(ev, str) and ev.startswith("@abs-expdir:"):
                        d = _resolve_cwd_token(root, "@expdir:" + ev.split(":", 1)[1])
                        env[ek] = str(root / d) if d else "/nonexistent/outer.task"
                    elif ev == "@outer-project-out":
                        # cond started by a task of the ENCLOSING project (a nested invocation): that task's COND_OUT
                        od = root.parent / "cond-out" / "outer.task"
                        if (root.parent / "cond_config.toml").exists():
                            od.mkdir(parents=True, exist_ok=True)
                        env[ek] = str(od)
                op["env"] = env
            if op.get("cwd") and not (root / op["cwd"]).is_dir():
                op["cwd"] = ""      # the drawn directory does not exist (yet): start from the root
            st.cwd_used = op.get("cwd", "")
            if snapshots:
                st.before = sim.snapshot(root)
            if hook is not None:
                r = hook(i, st, world, op)
                if r == "stop":
                    break
            if op.get("kill") is not None or op.get("kill_fs"):
                st.inv = run_forked(world, op, work)
            else:
                st.inv = world.run_cond(op)
            if st.inv.deadlock is not None and k != "run":
                raise RuntimeError("simulated deadlock in a command that starts no task (%s): %s"
                                   % (k, st.inv.deadlock))
            if k == "archive" and op.get("out_rel"):
                # a relative -o is resolved against the directory the command was started in
                want = root / (op.get("cwd") or "") / op["out_rel"]
                st.out_rel = {"expected": str(want), "exists": want.is_file(),
                              "strays": sorted(str(p_.relative_to(root)) for p_ in root.rglob(os.path.basename(op["out_rel"]))
                                               if p_ != want)[:3]}
                for p_ in list(root.rglob(os.path.basename(op["out_rel"]))):
                    try:
                        p_.unlink()
                    except OSError:
                        pass
            if snapshots:
                st.after = sim.snapshot(root)
            if st.inv.killed and st.after is not None and isinstance(st.after["rows"], str):
                # killed during the very first index creation: every later command fails with
                # UnsupportedVersionIndexFormat (DESIGN.md section 9, out of scope); start over
                st.note = "half-created-index"
                world.count("reach.half_created_index")
                shutil.rmtree(root / "cond-out", ignore_errors=True)
                st.after = sim.snapshot(root)
        run.stats = dict(world.stats)
        run.sim_seconds = world.sim_seconds
    except BaseException:
        _safe_rmtree(work)
        raise
    if not keep:
        _safe_rmtree(work)
    return run


def _resolve_cwd_token(root, token):
    """@expdir:<k> = the k-th experiment version directory that exists under cond-out (recorded or not);
    @insideexp:<k> = a sub-directory of it"""
    import re as _re

    kind, _, k = token[1:].partition(":")
    co = root / "cond-out"
    pat = _re.compile(r"^[a-zA-Z0-9_-]+\.task\.[1-9][0-9]*$")
    dirs = sorted(str(p.relative_to(root)) for p in co.rglob("*") if p.is_dir() and not p.is_symlink()
                  and pat.match(p.name) and "archive-tmp" not in p.parts and ".archive-tmp" not in p.parts) if co.is_dir() else []
    if not dirs:
        return ""
    d = dirs[int(k or 0) % len(dirs)]
    if kind == "insideexp":
        subs = sorted(str(p.relative_to(root)) for p in (root / d).rglob("*") if p.is_dir())
        return subs[0] if subs else d
    return d


def _git_op(world, op):
    g = world.git_state
    a = op["action"]
    if a == "init":
        g.clear()
        g.update({"mode": "repo", "commits": {}, "head": None, "dirty": False, "branches": {},
                  "cur_branch": "main", "tags": {}})
    elif a == "commit":
        name = op["name"]
        parents = op.get("parents")
        if parents is None:
            parents = [g["head"]] if g.get("head") else []
        g["commits"][name] = list(parents)
        g["head"] = name
        if g.get("cur_branch"):
            g["branches"][g["cur_branch"]] = name
        g["dirty"] = False
    elif a == "checkout":
        # a branch name or a commit (detached)
        tgt = op["target"]
        if tgt in g["branches"]:
            g["cur_branch"] = tgt
            g["head"] = g["branches"][tgt]
        else:
            g["cur_branch"] = None
            g["head"] = tgt
        if op.get("new_branch"):
            g["branches"][op["new_branch"]] = g["head"]
            g["cur_branch"] = op["new_branch"]
    elif a == "tag":
        # lightweight (a ref to the commit) or annotated (a tag object that points at the commit)
        tgt = op.get("target") or g.get("head")
        if tgt in g.get("branches", {}):
            tgt = g["branches"][tgt]
        if tgt is not None:
            g.setdefault("tags", {})[op["name"]] = {"commit": tgt, "annotated": bool(op.get("annotated"))}
    elif a == "dirty":
        v = op.get("value", True)
        g["dirty"] = v if v == "staged" else bool(v)
    elif a == "remove":
        g.clear()
        g.update({"mode": "none"})
    elif a == "nested":
        # an independent repository inside the project (e.g. a vendored clone)
        (world.root / op["dir"]).mkdir(parents=True, exist_ok=True)
        g["nested"] = {"dir": op["dir"], "state": {"mode": "repo", "commits": {"n0": [], "n1": ["n0"]}, "head": "n1",
                                                    "dirty": False, "branches": {"main": "n1"}, "cur_branch": "main"}}
    world.git = sim.FakeGit(g)


def _plant(world, root, op):
    """manual additions to the project tree"""
    out = root / "cond-out"
    for item in op["items"]:
        if item["kind"] == "archive_version_dir":
            # an unrecorded directory exactly where a restore of that archive will want to copy to
            rows = _archive_rows(root.parent / "arch" / (item["archive"] + ".tar.gz")) or []
            if not rows:
                continue
            from . import model as _M

            r = rows[item.get("idx", 0) % len(rows)]
            p = out / _M.out_dir_rel(r[0], r[1])
            if not p.exists():
                p.mkdir(parents=True, exist_ok=True)
                if not item.get("empty"):
                    (p / "planted.txt").write_bytes(b"planted before restore")
                world.count("fault.archive_preexisting_directory")
            continue
        if item["kind"] == "remove_recorded_dir":
            # somebody deleted the directory of a recorded version by hand (rm -rf), the row is still there
            rows_ = sim.read_rows(root)
            if isinstance(rows_, list) and rows_:
                from . import model as _M3

                rr = rows_[item.get("idx", 0) % len(rows_)]
                q_ = out / _M3.out_dir_rel(rr[0], rr[1])
                if q_.is_dir() and not q_.is_symlink():
                    _safe_rmtree(q_)
                    world.count("fault.recorded_version_directory_removed_by_hand")
            continue
        if item["kind"] == "relocate_path":
            # a directory below cond-out (e.g. the output directory of a combine task) moved to another volume
            q_ = out / item["path"]
            if q_.is_dir() and not q_.is_symlink() and not any(pp.is_symlink() for pp in q_.parents if str(pp).startswith(str(out))):
                dest = root.parent / "relocated" / ("p-" + item["path"].replace("/", "_"))
                dest.parent.mkdir(parents=True, exist_ok=True)
                if not dest.exists():
                    shutil.move(str(q_), str(dest))
                    sim.REAL.symlink(str(dest), str(q_))
                    world.count("fault.output_directory_relocated_behind_a_symlink")
            continue
        if item["kind"] == "relocate_recorded":
            # big results moved to another volume by hand: the directory of a recorded version (or the whole
            # package directory it lives in) now is a symbolic link to where the data went
            rows_ = sim.read_rows(root)
            if isinstance(rows_, list) and rows_:
                from . import model as _M4

                rr = rows_[item.get("idx", 0) % len(rows_)]
                q_ = out / _M4.out_dir_rel(rr[0], rr[1])
                if item.get("what") == "package" and q_.parent != out:
                    q_ = q_.parent
                    while q_.parent != out:
                        q_ = q_.parent
                if q_.is_dir() and not q_.is_symlink() and not any(pp.is_symlink() for pp in q_.parents if str(pp).startswith(str(out))):
                    dest = root.parent / "relocated" / ("%d-%s" % (item.get("idx", 0), q_.name))
                    dest.parent.mkdir(parents=True, exist_ok=True)
                    if not dest.exists():
                        shutil.move(str(q_), str(dest))
                        sim.REAL.symlink(str(dest), str(q_))
                        world.count("fault.recorded_output_relocated_behind_a_symlink")
            continue
        p = out / item["path"] if not item.get("outside") else root.parent / item["path"]
        kind = item["kind"]
        if item.get("inside"):
            # below an existing task output directory of the given flavour
            import re as _re

            pat = _re.compile(r"^[a-zA-Z0-9_-]+\.task(\.[1-9][0-9]*)?$" if item["inside"] == "any" else
                              (r"^[a-zA-Z0-9_-]+\.task\.[1-9][0-9]*$" if item["inside"] == "exp" else r"^[a-zA-Z0-9_-]+\.task$"))
            hosts = sorted(str(q) for q in out.rglob("*") if q.is_dir() and not q.is_symlink() and pat.match(q.name)
                           and not any(_re.search(r"\.task(\.|$)", part) for part in q.relative_to(out).parts[:-1]))
            if not hosts:
                continue
            p = pathlib.Path(hosts[item.get("idx", 0) % len(hosts)]) / item["path"]
        if kind == "symlink" and item.get("target_outside"):
            item = dict(item, target=str(root.parent / item["target_outside"]))
        if kind in ("dir", "file") and os.path.lexists(p):
            continue        # never touch what is already there
        if kind == "dir":
            p.mkdir(parents=True, exist_ok=True)
            for fn in item.get("files", []):
                (p / fn).parent.mkdir(parents=True, exist_ok=True)
                (p / fn).write_bytes(("planted %s" % fn).encode())
        elif kind == "file":
            p.parent.mkdir(parents=True, exist_ok=True)
            if not p.is_dir():
                p.write_bytes(item.get("data", "planted").encode())
        elif kind == "symlink":
            p.parent.mkdir(parents=True, exist_ok=True)
            if not os.path.lexists(p):
                sim.REAL.symlink(item["target"], p)
    world.count("fault.manual_addition")


def _archive_rows(path):
    """rows recorded inside an archive (read without Conductor's code), or None"""
    try:
        with tarfile.open(path, "r:gz") as tf:
            m = tf.extractfile("version_index_archive.sqlite")
            data = m.read()
    except Exception:
        return None
    tmp = tempfile.NamedTemporaryFile(prefix="cverif-idx-", dir=SHM, delete=False)
    try:
        tmp.write(data)
        tmp.close()
        c = sim.REAL.sqlite_connect(tmp.name)
        try:
            rows = c.execute("select task_identifier, timestamp, git_commit_hash, "
                             "has_uncommitted_changes from version_index").fetchall()
        except sqlite3.Error:
            return None
        finally:
            c.close()
        return sorted((r[0], r[1], r[2], int(r[3])) for r in rows)
    finally:
        os.unlink(tmp.name)


# ------------------------------------------------------------------------------------------
# process kill: run the invocation in a forked copy of the simulator that dies at instant k


_SUBREAPER = False


def _become_subreaper():
    """orphans of a killed forked simulator (a real `tar`) are re-parented to this process, so they can
    be killed and waited for before the disk is inspected (PID 1 of the sandbox reaps only once a second)"""
    global _SUBREAPER
    if _SUBREAPER:
        return
    import ctypes

    try:
        libc = ctypes.CDLL(None, use_errno=True)
        libc.prctl(36, 1, 0, 0, 0)  # PR_SET_CHILD_SUBREAPER
    except Exception:
        pass
    _SUBREAPER = True


def _reap_group(pgid):
    """A real helper process (tar) that the dead child had started keeps running as an orphan, exactly
    as after a real kill.  Let it finish (it is re-parented to us, see _become_subreaper) so that the
    disk state we inspect does not depend on how far it happened to get; kill it only if it lingers."""
    import signal as _signal
    import time as _time

    deadline = sim.REAL.time() + 20.0
    while True:
        try:
            pid, _ = sim.REAL.waitpid(-pgid, os.WNOHANG)
        except ChildProcessError:
            pass
        else:
            if pid != 0:
                continue
        try:
            sim.REAL.killpg(pgid, 0)
        except (ProcessLookupError, PermissionError):
            return
        if sim.REAL.time() > deadline:
            try:
                sim.REAL.killpg(pgid, _signal.SIGKILL)
            except (ProcessLookupError, PermissionError):
                return
        _time.sleep(0.0005)


def run_forked(world, op, work):
    """The child executes the invocation; if the kill instant is reached it dies through os._exit
    inside the monitoring callback, leaving on disk exactly what a killed process leaves.  Events
    are streamed to a file as they happen so the parent knows what had happened before the kill."""
    stream_path = str(work / ("stream-%d.jsonl" % world.inv_index))
    result_path = str(work / ("result-%d.pkl" % world.inv_index))
    for p in (stream_path, result_path):
        try:
            os.unlink(p)
        except FileNotFoundError:
            pass
    import sys

    sys.stdout.flush()
    sys.stderr.flush()
    _become_subreaper()
    pid = os.fork()
    if pid == 0:
        code = 0
        try:
            # own process group, so that real helper processes (tar) that outlive a kill can be
            # removed before the disk is inspected; their chatter is not ours
            os.setpgid(0, 0)
            dn = os.open(os.devnull, os.O_WRONLY)
            os.dup2(dn, 1)
            os.dup2(dn, 2)
            world.stream = os.open(stream_path, os.O_WRONLY | os.O_CREAT | os.O_APPEND, 0o600)
            inv = world.run_cond(op)
            inv.trace = list(inv.trace)
            with open(result_path + ".tmp", "wb") as f:
                pickle.dump({"inv": inv, "clock": world.clock, "sim_seconds": world.sim_seconds,
                             "stats": world.stats}, f)
            os.rename(result_path + ".tmp", result_path)
        except BaseException as ex:  # noqa
            code = 3
            try:
                with open(result_path + ".err", "w") as f:
                    import traceback

                    traceback.print_exc(file=f)
            except Exception:
                pass
        finally:
            os._exit(code)
    _, status = sim.REAL.waitpid(pid, 0)
    ec = os.waitstatus_to_exitcode(status)
    _reap_group(pid)
    if ec == 0 and os.path.exists(result_path):
        with open(result_path, "rb") as f:
            d = pickle.load(f)
        inv = d["inv"]
        world.clock = d["clock"]
        world.sim_seconds = d["sim_seconds"]
        world.stats = d["stats"]
        world.inv_index += 1
        return inv
    if ec == 3:
        msg = ""
        try:
            msg = open(result_path + ".err").read()
        except Exception:
            pass
        if "SimLimit" in msg:
            raise sim.SimLimit(msg[-300:])
        raise RuntimeError("forked invocation failed in the harness: " + msg[-2000:])
    if ec != 137:
        raise RuntimeError("forked invocation ended with unexpected status %r" % ec)
    # killed: rebuild what we know from the stream
    inv = sim.Inv()
    inv.uid = op.get("uid")
    inv.argv = list(op["argv"])
    inv.cwd = op.get("cwd", "")
    inv.killed = True
    inv.code = -9
    trace = []
    try:
        with open(stream_path) as f:
            for line in f:
                try:
                    trace.append(tuple(json.loads(line)))
                except ValueError:
                    pass
    except FileNotFoundError:
        pass
    inv.trace = trace
    for e in trace:
        if e[0] == "adv":
            world.clock += e[1]
        if e[0] == "KILLED":
            inv.kill_where = "%s:%s:%s" % (e[2], e[3], e[4])
            inv.ki = e[1]
    inv.spawns = []
    world.inv_index += 1
    world.count("invocations")
    world.count("fault.process_kill")
    return inv
