"""Per-property scenario profiles (generator weights, enabled faults) – swarm style: every scenario
draws its own sizes, workload mix, fault subset and scheduler knobs."""
import random

from . import scenario as S

KW_PROC = {"exp": 5, "cmd": 3, "group": 1, "combine": 1}
KW_EXP = {"exp": 8, "cmd": 1, "group": 1, "combine": 1}
KW_ALL = {"exp": 4, "cmd": 3, "group": 2, "combine": 2, "xgroup": 1}


def _pkgs(r):
    k = r.choice([1, 1, 2, 3])
    return r.sample(S.PKGS, k) if r.random() < 0.7 else [""] + r.sample(S.PKGS[1:], k - 1)


def _jobs(r, choices=(None, 1, 2, 3, 4, 8, "auto")):
    return r.choice(choices)


def _scripts(r, tasks, needed_hint, fail_p=0.0, fail_kinds=None, out=False, files=True,
             instant_p=0.0, hang_ok=False):
    scripts = {}
    for t, d in tasks.items():
        if d["kind"] not in ("exp", "cmd"):
            continue
        fail = None
        if r.random() < fail_p:
            fail = dict(r.choice(fail_kinds or S.FAIL_KINDS))
        sc = S.simple_script(r, t, d["kind"], fail=fail, files=files, out=out)
        if r.random() < instant_p:
            sc["instant_exit"] = True
        if r.random() < 0.15:
            sc["term_delay"] = r.choice([1, 2, 5])
        scripts[t] = [sc, S.simple_script(r, t, d["kind"], files=files, out=out)]
    return scripts


def _run_op(r, tasks, *, jobs_choices, again_p=0.3, stop_early_p=0.0, fail_p=0.0, fail_kinds=None,
            out=False, files=True, instant_p=0.0, cwds=("",), gap=None, target=None):
    flags = {}
    if r.random() < again_p:
        flags["again"] = True
    if r.random() < stop_early_p:
        flags["stop_early"] = True
    j = _jobs(r, jobs_choices)
    if j is not None:
        flags["jobs"] = j
    op = {"op": "run", "target": target or S.pick_target(r, tasks), "flags": flags,
          "cwd": r.choice(list(cwds)),
          "gap": gap if gap is not None else r.choice([0.0, 0.3, 1.0, 2.0, 5.0, 3600.0]),
          "scripts": _scripts(r, tasks, None, fail_p=fail_p, fail_kinds=fail_kinds, out=out, files=files,
                              instant_p=instant_p)}
    return op


def _base(r, n=(2, 8), kinds=KW_PROC, p_par=0.6, mon=None, p_async=(0.0, 1e-3, 1e-2, 5e-2), include_p=0.0):
    pk = _pkgs(r)
    tasks = S.gen_graph(r, r.randint(*n), kinds, pk, p_par=p_par)
    scn = {"epoch": 1_700_000_000 + r.randrange(10**6), "tasks": tasks, "pkgs": pk + ["nocond"],
           "git": {"mode": "none"}, "disable_git": r.random() < 0.5, "history": [],
           "knobs": S.gen_knobs(r, mon=mon, p_async_choices=p_async)}
    if include_p and r.random() < include_p:
        if r.random() < 0.35:
            S.add_include_reldeps(r, scn)
        else:
            S.add_include(r, scn)
    _maybe_dup_dep(r, scn)
    return scn


# ---------------------------------------------------------------------------------------------

def _maybe_dup_dep(r, scn, p=0.03):
    """the same dependency listed twice, spelled ":name" and "//pkg:name": must be refused"""
    if r.random() >= p or scn.get("include"):
        return
    cands = [(t, d) for t, d in scn["tasks"].items() if not d.get("xg") and not d.get("inc") and not d.get("increl") and d["kind"] != "combine"
             and any(S.split_tid(x)[0] == S.split_tid(t)[0] for x in d["deps"])]
    if cands:
        t, d = r.choice(cands)
        x = r.choice([x for x in d["deps"] if S.split_tid(x)[0] == S.split_tid(t)[0]])
        i = d["deps"].index(x)
        d["rel"][i] = True
        d["deps"].append(x)
        d["rel"].append(False)
        scn["dup_dep"] = t


def _cached_chain_scenario(r):
    """f(cmd) <- m2(exp) <- m1(exp) <- d(cmd); root(deps=[d, f | m2 ...]).  m1 and m2 get cached by a first
    run, then the root is run while f fails / runs long: ordering and skipping must still see f behind the
    two cached experiments"""
    pk = _pkgs(r)
    nm = r.sample(S.NAMES, 6)
    P_ = lambda i: S.tid(r.choice(pk), nm[i])
    f, m2, m1, d, e, root = (P_(i) for i in range(6))
    tasks = {
        f: {"kind": "cmd", "deps": [], "rel": [], "par": r.random() < 0.5},
        m2: {"kind": "exp", "deps": [f], "rel": [False], "par": r.random() < 0.5},
        m1: {"kind": "exp", "deps": [m2], "rel": [False], "par": r.random() < 0.5},
        d: {"kind": r.choice(["cmd", "exp"]), "deps": [m1], "rel": [False], "par": r.random() < 0.5},
        e: {"kind": "cmd", "deps": [r.choice([m2, m1])], "rel": [False], "par": r.random() < 0.5},
    }
    rdeps = [d, e] + r.sample([f, m2], r.randint(1, 2))
    r.shuffle(rdeps)
    tasks[root] = {"kind": r.choice(["group", "cmd"]), "deps": rdeps, "rel": [False] * len(rdeps)}
    if tasks[root]["kind"] == "cmd":
        tasks[root]["par"] = False
    scn = {"epoch": 1_700_000_000 + r.randrange(10**6), "tasks": tasks, "pkgs": pk, "git": {"mode": "none"},
           "disable_git": True, "history": [],
           "knobs": S.gen_knobs(r, mon=None)}
    first = {"op": "run", "target": r.choice([m1, m1, d]), "flags": {}, "cwd": "", "gap": 0.0, "scripts": {}}
    second = _run_op(r, tasks, jobs_choices=(None, 2, 3), again_p=0.0, fail_p=0.0, files=False, target=root,
                     stop_early_p=0.1)
    c = r.random()
    if c < 0.6:
        second["scripts"][f] = [{"steps": [["nop"]] * r.choice([0, 2]), "end": list(r.choice([["exit", 1], ["sig", 9], ["exit", 3]]))}]
    else:
        second["scripts"][f] = [{"steps": [["nop"]] * r.choice([5, 20]), "end": ["exit", 0]}]
    scn["history"] = [first, second]
    if r.random() < 0.3:
        scn["history"].insert(1, {"op": "run", "target": e, "flags": {}, "cwd": "", "gap": 1.0, "scripts": {}})
    return scn


def gen_C09(r):
    """many short tasks, every exit instant, bursts, instant exits, stray children, -j 1..8"""
    scn = _base(r, n=(2, 9), kinds={"exp": 6, "cmd": 3, "group": 1, "combine": 1}, p_par=0.75,
                mon=True, p_async=(1e-3, 1e-2, 1e-2, 5e-2, 0.15))
    for _ in range(r.choice([1, 1, 2])):
        op = _run_op(r, scn["tasks"], jobs_choices=(None, 1, 2, 2, 3, 4, 8), again_p=0.6,
                     fail_p=r.choice([0.0, 0.0, 0.2]), files=False, instant_p=r.choice([0.0, 0.0, 0.3]),
                     out=r.random() < 0.3)
        if r.random() < 0.25:
            op["stray"] = r.randint(1, 2)
        scn["history"].append(op)
    return scn


def gen_C01(r):
    scn = _base(r, n=(3, 9), kinds=KW_ALL, p_par=0.6, mon=None, include_p=0.08)
    for _ in range(r.choice([1, 2, 3])):
        scn["history"].append(_run_op(r, scn["tasks"], jobs_choices=(None, 1, 2, 3, 4), again_p=0.4,
                                      fail_p=r.choice([0.0, 0.0, 0.15]), files=False))
    return scn


def gen_C02(r):
    scn = _base(r, n=(3, 9), kinds=KW_ALL, p_par=0.5, mon=False, p_async=(0.0,), include_p=0.15)
    if r.random() < 0.25:
        # commit flags and versions recorded at several commits (simple shapes; C05 owns the hard ones)
        scn["disable_git"] = False
        scn["history"] = _git_history(r, scn["tasks"], r.randint(3, 8), where_p=0.0, flags_p=0.5,
                                      jobs_choices=(None, None, 2))
        return scn
    # keep git simple here (none / disabled / linear); DAG-shaped histories belong to C05
    for _ in range(r.choice([1, 2, 3, 4])):
        scn["history"].append(_run_op(r, scn["tasks"], jobs_choices=(None, None, 2, 4), again_p=0.25,
                                      fail_p=r.choice([0.0, 0.0, 0.0, 0.2]), files=False,
                                      target=r.choice(list(scn["tasks"])) if r.random() < 0.5 else None))
    if r.random() < 0.04:
        # a cond-out of Conductor <= 0.4 (index format 1); the command that upgrades it is killed somewhere (often
        # inside the upgrade): later commands must still work and still see the recorded versions
        exps_ = [t for t, d in scn["tasks"].items() if d["kind"] == "exp"]
        if exps_:
            scn["knobs"]["mon"] = True
            first = dict(scn["history"][0], kill=int(10 ** r.uniform(1.0, 2.6)))
            scn["history"] = [{"op": "legacy_index", "rows": [[t, scn["epoch"] - 7000 - 13 * j] for j, t in enumerate(exps_[:3])]},
                              first] + scn["history"]
            return scn
    if r.random() < 0.2:
        scn["history"][-1]["flags"]["check"] = True
    elif r.random() < 0.08:
        # results moved to another volume (symbolic link in cond-out), a gc, and the task is run again: what
        # was reusable before the gc still is
        scn["history"].insert(-1, {"op": "plant", "items": [{"kind": "relocate_recorded", "idx": r.randrange(6),
                                                             "what": r.choice(["version", "package"])}]})
        scn["history"].insert(-1, {"op": "gc", "flags": {"verbose": r.random() < 0.3}, "cwd": ""})
        scn["history"][-1]["flags"].pop("again", None)
    if r.random() < 0.05 and "dup_dep" not in scn and not scn.get("include"):
        # the same dependency listed twice, spelled ":name" and "//pkg:name": must be refused
        cands = [(t, d) for t, d in scn["tasks"].items() if not d.get("xg") and d["kind"] != "combine"
                 and any(S.split_tid(x)[0] == S.split_tid(t)[0] for x in d["deps"])]
        if cands:
            t, d = r.choice(cands)
            x = r.choice([x for x in d["deps"] if S.split_tid(x)[0] == S.split_tid(t)[0]])
            i = d["deps"].index(x)
            d["rel"][i] = True
            d["deps"].append(x)
            d["rel"].append(False)
            scn["dup_dep"] = t
    return scn


def _fanout_scenario(r, stop_early_p=0.7, fail_p=0.45):
    """k independent parallel tasks under one group (optionally with a second layer), -j >= k, fast
    failures next to long runners, completions delivered in batches"""
    pk = _pkgs(r)
    k = r.randint(3, 6)
    tasks = {}
    names = r.sample(S.NAMES, k + 2)
    leaves = []
    for i in range(k):
        t = S.tid(r.choice(pk), names[i])
        tasks[t] = {"kind": r.choice(["cmd", "cmd", "exp"]), "deps": [], "rel": [], "par": r.random() < 0.9}
        leaves.append(t)
    mid = None
    if r.random() < 0.4:
        mid = S.tid(r.choice(pk), names[k])
        dd = r.sample(leaves, r.randint(1, 2))
        tasks[mid] = {"kind": "cmd", "deps": dd, "rel": [False] * len(dd), "par": True}
    top = S.tid(r.choice(pk), names[k + 1])
    deps = leaves + ([mid] if mid else [])
    r.shuffle(deps)
    tasks[top] = {"kind": "group", "deps": deps, "rel": [False] * len(deps)}
    scn = {"epoch": 1_700_000_000 + r.randrange(10**6), "tasks": tasks, "pkgs": pk, "git": {"mode": "none"},
           "disable_git": True, "history": [],
           "knobs": {"mon": r.random() < 0.5, "p_async": r.choice([0.0, 0.0, 1e-3, 1e-2]),
                     "p_burst": r.choice([0.3, 0.6, 0.85]), "bias": r.choice(["uniform", "fifo", "lifo"]), "cpu_count": 8}}
    flags = {"jobs": r.choice([k, k, k + 1, 8, "auto"])}
    if r.random() < stop_early_p:
        flags["stop_early"] = True
    scripts = {}
    for t, d in tasks.items():
        if d["kind"] == "group":
            continue
        c = r.random()
        if c < fail_p:
            sc = {"steps": [["nop"]] * r.choice([0, 0, 0, 1]), "end": list(r.choice([["exit", 1], ["exit", 3], ["sig", 9], ["exit", 255]]))}
        elif c < fail_p + 0.3:
            sc = {"steps": [["nop"]] * r.choice([20, 40, 80]), "end": ["exit", 0]}
        else:
            sc = {"steps": [["nop"]] * r.choice([0, 0, 1, 2]), "end": ["exit", 0]}
        if r.random() < 0.2:
            sc["term_delay"] = r.choice([1, 3])
        scripts[t] = [sc]
    scn["history"] = [{"op": "run", "target": top, "flags": flags, "cwd": "", "gap": 0.0, "scripts": scripts}]
    return scn


def gen_C03(r):
    if r.random() < 0.08:
        return _cached_chain_scenario(r)
    if r.random() < 0.3:
        return _fanout_scenario(r)
    wide = r.random() < 0.35        # many parallel tasks in flight: completions arrive in batches
    scn = _base(r, n=(4, 9) if wide else (3, 9), kinds={"exp": 5, "cmd": 4, "group": 1} if wide else KW_ALL,
                p_par=0.9 if wide else 0.6, mon=None)
    if wide:
        scn["knobs"]["p_burst"] = r.choice([0.5, 0.8])
        for d in scn["tasks"].values():
            if r.random() < 0.6:
                d["deps"], d["rel"] = d["deps"][:1], d.get("rel", [])[:1]
    for _ in range(r.choice([1, 1, 2])):
        op = _run_op(r, scn["tasks"], jobs_choices=(3, 4, 4, 8) if wide else (None, 1, 2, 3, 4), again_p=0.5,
                     stop_early_p=0.6 if wide else 0.35, fail_p=r.choice([0.15, 0.3, 0.5]), files=False)
        if wide:
            for lst in op["scripts"].values():
                for sc in lst:
                    # fast finishers next to tasks that stay in flight for a long time
                    sc["steps"] = [["nop"]] * r.choice([0, 0, 0, 1, 2, 30, 60])
        scn["history"].append(op)
    return scn


def gen_C04(r):
    scn = _base(r, n=(3, 9), kinds=KW_ALL, p_par=0.7, mon=None)
    for _ in range(r.choice([1, 2])):
        op = _run_op(r, scn["tasks"], jobs_choices=(None, 1, 2, 2, 3, 4, 8, "auto"), again_p=0.6,
                     fail_p=r.choice([0.0, 0.0, 0.2]), files=False)
        if r.random() < 0.25:
            op["env"] = {"COND_SLOT": str(r.choice([0, 3, 7])), "COND_NAME": "outer"}
        scn["history"].append(op)
    return scn


GEN = {"C01": gen_C01, "C02": gen_C02, "C03": gen_C03, "C04": gen_C04, "C09": gen_C09}


# ---------------------------------------------------------------------------------------------
# git-shaped histories (C05)

def _git_history(r, tasks, n_ops, *, where_p=0.25, fail_p=0.0, flags_p=0.45, jobs_choices=(None,)):
    """interleaves git operations with runs / where; returns the list of ops"""
    ops = []
    commits = []          # names in creation order
    branches = {}         # branch -> tip
    state = {"mode": "none", "head": None, "cur": None}
    cnum = [0]
    tags = []
    exps = [t for t, d in tasks.items() if d["kind"] == "exp"]

    def new_commit(parents=None):
        name = "c%d" % cnum[0]
        cnum[0] += 1
        op = {"op": "git", "action": "commit", "name": name}
        if parents is not None:
            op["parents"] = parents
        ops.append(op)
        commits.append(name)
        if state["cur"]:
            branches[state["cur"]] = name
        state["head"] = name

    mode = r.choices(["repo", "none", "empty-repo"], weights=[8, 1, 1])[0]
    if mode != "none":
        ops.append({"op": "git", "action": "init"})
        state.update(mode="repo", cur="main")
        if mode == "repo":
            new_commit()
    k = 0
    while k < n_ops:
        k += 1
        c = r.random()
        if state["mode"] == "repo" and c < 0.40:
            g = r.random()
            if g < 0.40 or not commits:
                new_commit()
            elif g < 0.55 and commits:
                # new branch from a random existing commit
                base = r.choice(commits)
                bname = "br%d" % len(branches)
                ops.append({"op": "git", "action": "checkout", "target": base, "new_branch": bname})
                branches[bname] = base
                state.update(cur=bname, head=base)
            elif g < 0.70 and branches:
                b = r.choice(sorted(branches))
                ops.append({"op": "git", "action": "checkout", "target": b})
                state.update(cur=b, head=branches[b])
            elif g < 0.78 and commits:
                cmt = r.choice(commits)
                ops.append({"op": "git", "action": "checkout", "target": cmt})
                state.update(cur=None, head=cmt)
            elif g < 0.90 and len(branches) > 1 and state["head"]:
                other = r.choice([b for b in sorted(branches) if branches[b] != state["head"]] or [None])
                if other:
                    new_commit(parents=[state["head"], branches[other]])
            elif g < 0.95 and commits:
                # a release tag on some commit: lightweight, or annotated (a tag object of its own)
                tname = "v%d" % len(tags)
                tags.append(tname)
                ops.append({"op": "git", "action": "tag", "name": tname, "target": r.choice(commits + [state["head"]] if state["head"] else commits),
                            "annotated": r.random() < 0.6})
            else:
                ops.append({"op": "git", "action": "dirty", "value": r.choice([True, True, "staged", False])})
            continue
        if c < 0.46:
            ops.append({"op": "config", "disable_git": r.random() < 0.5})
            continue
        if c < 0.46 + where_p * 0.5:
            ops.append({"op": "where", "target": r.choice(list(tasks)),
                        "flags": {"project": r.random() < 0.4, "nonexist": r.random() < 0.3},
                        "cwd": ""})
            continue
        flags = {}
        if r.random() < flags_p:
            f = r.random()
            if f < 0.30:
                flags["again"] = True
            elif f < 0.55:
                flags["this_commit"] = True
            elif f < 0.95:
                pool = ["HEAD", "deadbeef", "nosuchbranch"]
                pool += sorted(branches)
                pool += [sim_hash(x) for x in commits] * 2
                pool += [sim_hash(x)[:10] for x in commits]
                pool += tags * 3
                flags["at_least"] = r.choice(pool)
            else:
                flags["again"] = True
                flags["this_commit"] = True
        j = r.choice(jobs_choices)
        if j is not None:
            flags["jobs"] = j
        target = r.choice(exps) if exps and r.random() < 0.5 else S.pick_target(r, tasks, 0.5)
        ops.append({"op": "run", "target": target, "flags": flags, "cwd": "",
                    "gap": r.choice([0.0, 0.0, 0.4, 1.0, 3.0, 100.0]),
                    "scripts": _scripts(r, tasks, None, fail_p=fail_p, files=False)})
    return ops


def sim_hash(name):
    from . import sim

    return sim.commit_hash(name)


def gen_C05(r):
    pk = _pkgs(r)
    tasks = S.gen_graph(r, r.randint(2, 5), {"exp": 8, "cmd": 1, "group": 1, "combine": 1}, pk, p_par=0.3)
    scn = {"epoch": 1_700_000_000 + r.randrange(10**6), "tasks": tasks, "pkgs": pk,
           "git": {"mode": "none"}, "disable_git": r.random() < 0.1, "history": [],
           "knobs": S.gen_knobs(r, mon=False, p_async_choices=(0.0,))}
    scn["history"] = _git_history(r, tasks, r.randint(4, 12))
    # foreign rows: archive made in this repository, restored after the repository was replaced
    if r.random() < 0.2 and any(o["op"] == "run" for o in scn["history"]):
        i = r.randrange(len(scn["history"]) // 2, len(scn["history"]) + 1)
        extra = [{"op": "archive", "out": "A0", "cwd": ""}, {"op": "clean", "cwd": ""},
                 {"op": "git", "action": "init"}, {"op": "git", "action": "commit", "name": "z0"},
                 {"op": "restore", "archive": "A0", "cwd": ""}]
        tail = _git_history(r, tasks, r.randint(1, 4))
        tail = [o for o in tail if not (o["op"] == "git" and o["action"] == "init")]
        for o in tail:
            if o["op"] == "git" and o["action"] == "commit":
                o["name"] = "z" + o["name"]
                if "parents" in o:
                    o.pop("parents")
            if o["op"] == "git" and o["action"] == "checkout":
                o["action"] = "dirty"
            if o["op"] == "run":
                o["flags"].pop("at_least", None)
        scn["history"] = scn["history"][:i] + extra + tail
    return scn


GEN["C05"] = gen_C05


# ---------------------------------------------------------------------------------------------

def gen_C07(r):
    scn = _base(r, n=(2, 8), kinds=KW_ALL, p_par=0.4, mon=False, p_async=(0.0,), include_p=0.2)
    if r.random() < 0.15:
        scn["condout_symlink"] = True
    for d in scn["tasks"].values():
        if d.get("args") and r.random() < 0.3 and not d.get("inc"):
            d["args"] = d["args"] + [r.choice(S.ODD_STR_VALUES)]
        # values that mean something to bash: the run string is `run`, then the args, then the options, as they are -
        # the words and expansions bash makes of that string are part of the contract (seeded change C07g-1 quoted them)
        if d["kind"] in ("exp", "cmd") and not d.get("inc") and not d.get("xg") and r.random() < 0.15:
            if r.random() < 0.6:
                d["args"] = list(d.get("args", [])) + [r.choice(S.SHELL_STR_VALUES)]
            else:
                d["options"] = dict(d.get("options", {}), **{r.choice(["mode", "dest"]): r.choice(S.SHELL_STR_VALUES)})
    # simple git sometimes, so that the cached-version branch of the snapshot is exercised
    ops = []
    if r.random() < 0.3:
        scn["disable_git"] = False
        ops += [{"op": "git", "action": "init"}, {"op": "git", "action": "commit", "name": "c0"}]
    for k in range(r.choice([1, 2, 3])):
        op = _run_op(r, scn["tasks"], jobs_choices=(None, None, 2, 4), again_p=0.25,
                     fail_p=r.choice([0.0, 0.0, 0.15, 0.4]), files=True, cwds=[""] + list(scn["pkgs"]),
                     target=r.choice(list(scn["tasks"])) if r.random() < 0.4 else None)
        for t, lst in op["scripts"].items():
            for sc in lst:
                if r.random() < 0.6:
                    sc["steps"].insert(r.randint(0, len(sc["steps"])), ["lib"])
        if r.random() < 0.2:
            # cond itself started from inside another task (nested cond run) or from a shell that exports these
            op["env"] = {"COND_OUT": "/nonexistent/outer.task", "COND_NAME": "outer",
                         "COND_DEPS": "/nonexistent/dep1.task:/nonexistent/dep2.task"}
            if r.random() < 0.5:
                op["env"].pop(r.choice(sorted(op["env"])))
        if k and r.random() < 0.5:
            op["gap"] = r.choice([0.0, 0.0, 0.3])
        if r.random() < 0.06:
            # something that is not a directory sits where a run_command's output directory belongs (a stray
            # file, a link to a file): the task cannot be launched - it must not run with COND_OUT naming it
            cmds = [t for t, d in scn["tasks"].items() if d["kind"] == "cmd"]
            if cmds:
                from . import model as M_

                ct = r.choice(cmds)
                item = r.choice([{"kind": "file", "path": M_.out_dir_rel(ct)},
                                 {"kind": "symlink", "path": M_.out_dir_rel(ct), "target": "/etc/hostname"}])
                ops.append({"op": "plant", "items": [item]})
        ops.append(op)
        if r.random() < 0.3 and scn["disable_git"] is False and ops[0]["op"] == "git":
            ops.append({"op": "git", "action": "commit", "name": "c%d" % (k + 1)})
    scn["history"] = ops
    pkgs_used = sorted({S.split_tid(t)[0] for t, d in scn["tasks"].items() if d["kind"] in ("exp", "cmd") and not d.get("xg")})
    if r.random() < 0.1 and len(pkgs_used) >= 2 and not scn.get("dup_dep") and not scn.get("include"):
        # one COND file wraps run_experiment / run_command (its own tasks get default options and are
        # parallelizable); what a COND file defines or rebinds stays in that file
        wp = r.choice(pkgs_used)
        scn["wrap_pkg"] = wp
        scn["wrap_opts"] = True
        for t, d in scn["tasks"].items():
            if S.split_tid(t)[0] == wp and d["kind"] in ("exp", "cmd") and not d.get("xg"):
                d["par"] = True
                if not d.get("options"):
                    d["options"] = {"wrapped": 1}
                    d["wrapdef"] = True
    return scn


def gen_C08(r):
    scn = _base(r, n=(2, 6), kinds=KW_EXP, p_par=0.4, mon=True, p_async=(0.0, 1e-3))
    ops = []
    n = r.randint(2, 7)
    have_arch = False
    burst = r.random() < 0.4      # several invocations within the same simulated second(s)
    for k in range(n):
        c = r.random()
        gap = r.choice([0.0, 0.0, 0.0, 0.2, 0.7, 1.0, 2.0, 4.0, -1.0, -5.0, -3600.0, 86400.0])
        if burst:
            gap = r.choice([0.0, 0.0, 0.0, 0.1, 0.5, -1.0])
        if c < 0.65 or k == 0 or burst:
            op = _run_op(r, scn["tasks"], jobs_choices=(None, None, 2, 3), again_p=0.5,
                         fail_p=r.choice([0.0, 0.2, 0.4, 0.6]) if not burst else r.choice([0.3, 0.6, 0.8]),
                         files=True, gap=gap, stop_early_p=0.1)
            if burst:
                for lst in op["scripts"].values():
                    for sc in lst:
                        sc["steps"] = [st_ for st_ in sc["steps"] if st_[0] != "adv"]
            if k and r.random() < 0.12:
                # cond started from inside a task of an outer run (or from a shell that exports these)
                op["env"] = {"COND_OUT": "@abs-expdir:%d" % r.randrange(6), "COND_NAME": "outer"}
            f = r.random()
            if f < 0.15:
                op["signal"] = {"sig": r.choice(["INT", "TERM"]), "cp": int(10 ** r.uniform(1.5, 3.6))}
            elif f < 0.3:
                op["kill"] = int(10 ** r.uniform(1.5, 3.6))
            ops.append(op)
        elif c < 0.70:
            ops.append({"op": "archive", "out": "A%d" % k, "flags": {"latest": r.random() < 0.3}, "gap": gap, "cwd": ""})
            have_arch = "A%d" % k
        elif c < 0.75 and ops:
            # the same tasks run elsewhere at the same time: same version ids, other contents
            exps = [t for t, d in scn["tasks"].items() if d["kind"] == "exp"]
            runs_ = [j for j, o in enumerate(ops) if o["op"] == "run"]
            if exps and runs_:
                ops.append({"op": "foreign", "clock_of_step": r.choice(runs_), "targets": r.sample(exps, r.randint(1, min(2, len(exps)))),
                            "out": "F%d" % k, "scripts": {t: [S.simple_script(r, t, "exp", files=True)] for t in exps}})
                ops.append({"op": "restore", "archive": "F%d" % k, "cwd": ""})
        elif c < 0.85 and have_arch:
            if r.random() < 0.6:
                ops.append({"op": "clean", "cwd": ""})
            ops.append({"op": "restore", "archive": have_arch, "gap": r.choice([0.0, -10.0, -100000.0]), "cwd": ""})
        elif c < 0.95:
            ops.append({"op": "gc", "flags": {"verbose": r.random() < 0.3}, "gap": gap, "cwd": ""})
        else:
            ops.append({"op": "clean", "cwd": ""})
    if r.random() < 0.08:
        # a cond-out last written by Conductor <= 0.4 (index format 1), possibly on a machine whose clock
        # was ahead: the upgrade happens inside the first command, which is a run
        exps_ = [t for t, d in scn["tasks"].items() if d["kind"] == "exp"]
        if exps_:
            ops.insert(0, {"op": "legacy_index",
                           "rows": [[t, scn["epoch"] + r.choice([-5000, -3, 0, 2, 40, 5000])] for t in exps_[:3]]})
    scn["history"] = ops
    return scn


GEN["C07"] = gen_C07
GEN["C08"] = gen_C08


# ---------------------------------------------------------------------------------------------
# fault enumerations (C06, C12, C16)

import os as _os


def _tier():
    return _os.environ.get("CVERIF_TIER", "quick")


def _small_project(r, n=(2, 5), kinds=None, p_par=0.4):
    pk = _pkgs(r)
    tasks = S.gen_graph(r, r.randint(*n), kinds or {"exp": 8, "cmd": 2, "group": 1, "combine": 1}, pk, p_par=p_par)
    return {"epoch": 1_700_000_000 + r.randrange(10**6), "tasks": tasks, "pkgs": pk,
            "git": {"mode": "none"}, "disable_git": r.random() < 0.5, "history": [],
            "knobs": {"mon": True, "p_async": r.choice([0.0, 0.0, 1e-3]), "p_burst": 0.0, "bias": "uniform",
                      "cpu_count": 2}}


def gen_C06(r):
    if r.random() < 0.15:
        # several experiments in flight at once, some failing early, some late (after others have been recorded)
        scn = _fanout_scenario(r, stop_early_p=0.15, fail_p=0.35)
        op = scn["history"][0]
        for t, d in scn["tasks"].items():
            if d["kind"] == "cmd" and not d["deps"]:
                d["kind"] = "exp"
        for t, lst in op["scripts"].items():
            for sc in lst:
                if sc["end"] != ["exit", 0] and r.random() < 0.6:
                    sc["steps"] = [["nop"]] * r.choice([3, 10, 30, 60])
                sc["steps"] = list(sc["steps"]) + [["file", r.choice(["res.csv", "sub.task.7/inner.txt"]),
                                                    {"k": "bin", "n": 50, "seed": r.randrange(1 << 30)}]]
        exps_ = [t for t, d in scn["tasks"].items() if d["kind"] == "exp"]
        for t in exps_:
            if r.random() < 0.6:
                scn["tasks"][t]["options"] = {"k": r.randrange(5)}
        if exps_ and r.random() < 0.35:
            # a task that gets in the way of Conductor's own record: a directory where options.json belongs
            # (writing the record fails with an OSError after the task has exited 0)
            t = r.choice(exps_)
            scn["tasks"][t]["options"] = {"k": 1}
            for sc in op["scripts"].get(t, []):
                if sc["end"] == ["exit", 0]:
                    sc["steps"] = [["mkdir", "options.json"]] + list(sc["steps"])
        scn["knobs"]["mon"] = True
        scn["knobs"]["cpu_count"] = 2
        scn["history"].append({"op": "run", "target": op["target"], "flags": {"jobs": 2}, "cwd": "", "gap": 2.0, "scripts": {}})
        scn["enum"] = {"step": r.choice([0, 0, 1]), "budget": 24 if _tier() == "quick" else 400}
        if r.random() < 0.3:
            scn["enum"]["mode"] = "signal"
        return scn
    scn = _small_project(r)
    ops = []
    if not scn["disable_git"] and r.random() < 0.6:
        ops += [{"op": "git", "action": "init"}, {"op": "git", "action": "commit", "name": "c0"}]
        if r.random() < 0.5:
            ops.append({"op": "git", "action": "dirty", "value": r.choice([True, "staged"])})
    def run_op(**kw):
        op = _run_op(r, scn["tasks"], jobs_choices=(None, None, 2), again_p=kw.get("again_p", 0.3),
                     fail_p=r.choice([0.0, 0.2, 0.4]), files=True, out=True, cwds=("",),
                     stop_early_p=0.1)
        return op
    ops.append(run_op(again_p=0.0))
    if r.random() < 0.06:
        # cond itself started by a task of another run (or from a shell that exports these)
        ops[-1]["env"] = {"COND_OUT": "/nonexistent/outer.task", "COND_NAME": "outer", "COND_DEPS": ""}
    cands = [len(ops) - 1]
    plan = r.choice(["run", "run2", "arch", "arch", "gc"])
    if plan == "run2":
        ops.append(run_op(again_p=0.7))
        cands.append(len(ops) - 1)
    elif plan == "arch":
        ops.append(run_op(again_p=0.7))
        ops.append({"op": "archive", "out": "A0", "flags": {"latest": r.random() < 0.3}, "cwd": ""})
        cands.append(len(ops) - 1)
        if r.random() < 0.7:
            ops.append({"op": "clean", "cwd": ""})
        if r.random() < 0.4:
            ops.append(run_op(again_p=0.0))
        if r.random() < 0.45:
            # an earlier attempt that was killed somewhere in the middle (often inside the copy loop)
            ops.append({"op": "restore", "archive": "A0", "cwd": "", "kill": int(10 ** r.uniform(2.0, 2.9))})
        ops.append({"op": "restore", "archive": "A0", "cwd": ""})
        if r.random() < 0.15:
            # a damaged copy of the archive, restored by a cond whose parent ignores SIGCHLD (tar's exit status is
            # only available if cond puts the default disposition back)
            ops[-1] = dict(ops[-1], corrupt={"kind": "truncate", "frac": r.choice([0.5, 0.7, 0.9])}, sig_ign=["CHLD"])
        cands += [len(ops) - 1] * 4
    elif plan == "gc":
        ops.append(run_op(again_p=0.5))
        ops.append({"op": "gc", "flags": {"verbose": r.random() < 0.3}, "cwd": ""})
        cands += [len(ops) - 1] * 2
    # an unenumerated random kill somewhere, so that later operations run on what a kill left behind
    if r.random() < 0.3:
        j = r.randrange(len(ops))
        if ops[j]["op"] in ("run", "restore", "archive", "gc"):
            ops[j] = dict(ops[j], kill=int(10 ** r.uniform(1.5, 3.5)))
    if r.random() < 0.5:
        ops.append(run_op(again_p=0.5))
        cands.append(len(ops) - 1)
    scn["history"] = ops
    step = r.choice(cands)
    if ops[step].get("kill") is not None:
        ops[step] = {k: v for k, v in ops[step].items() if k != "kill"}
    scn["enum"] = {"step": step, "budget": 24 if _tier() == "quick" else 400}
    if ops[step]["op"] == "run" and r.random() < 0.3:
        scn["enum"]["mode"] = "signal"
    return scn


GEN["C06"] = gen_C06


CORRUPTIONS = [None, None, None, {"kind": "no_index"}, {"kind": "missing_member", "idx": 0}, {"kind": "missing_member", "idx": 1},
               {"kind": "truncate", "frac": 0.1}, {"kind": "truncate", "frac": 0.5}, {"kind": "truncate", "frac": 0.9},
               {"kind": "garbage"}, {"kind": "index_not_sqlite"}, {"kind": "index_empty"},
               {"kind": "escape_dotdot", "idx": 0}, {"kind": "escape_symlink", "idx": 1}]


def gen_C12(r):
    scn = _small_project(r, n=(2, 5))
    ops = []

    def run_op(again_p):
        return _run_op(r, scn["tasks"], jobs_choices=(None, None, 2), again_p=again_p,
                       fail_p=r.choice([0.0, 0.0, 0.2]), files=True, out=r.random() < 0.5, cwds=("",))

    ops.append(run_op(0.0))
    overlap = r.random() < 0.07
    if overlap:
        # two archives, the second a superset of the first
        ops.append({"op": "archive", "out": "E0", "target": None, "flags": {}, "cwd": ""})
        op2 = run_op(1.0)
        op2["flags"]["again"] = True
        op2["gap"] = max(op2.get("gap", 0.0), 1.0)
        ops.append(op2)
    elif r.random() < 0.5:
        ops.append(run_op(0.8))
    tgt = None
    if r.random() < 0.25 and not overlap:
        exps = [t for t, d in scn["tasks"].items() if d["kind"] == "exp"]
        tgt = r.choice(exps) if exps else None
    ops.append({"op": "archive", "out": "A0", "target": tgt, "flags": {"latest": r.random() < 0.3 and not overlap}, "cwd": ""})
    # prior project state for the restore
    state = r.choice(["clean", "clean", "clean+run", "keep", "clean+plant", "clean+run+plant"])
    c12x = r.random()
    if c12x < 0.07:
        state = "clean+legacy"       # cond-out of an old Conductor: the index is upgraded inside the restore
    elif c12x < 0.14:
        state = "keep+rmdir"         # a recorded version lost its directory (rm -rf by hand)
    if overlap:
        state = "overlap"
        # the first archive is restored, one of its versions loses its directory (rm -rf by hand), then the
        # second archive - which holds that recorded version and newer ones - is restored
        ops += [{"op": "clean", "cwd": ""}, {"op": "restore", "archive": "E0", "cwd": ""},
                {"op": "plant", "items": [{"kind": "remove_recorded_dir", "idx": r.randrange(4)}]}]
    if state.startswith("clean"):
        ops.append({"op": "clean", "cwd": ""})
    if state == "clean+legacy":
        exps_ = [t for t, d in scn["tasks"].items() if d["kind"] == "exp"]
        ops.append({"op": "legacy_index", "rows": [[t, scn["epoch"] - 9000 - 11 * j] for j, t in enumerate(exps_[:2])]})
    if state == "keep+rmdir":
        ops.append({"op": "plant", "items": [{"kind": "remove_recorded_dir", "idx": r.randrange(4)}]})
    if "run" in state:
        op = run_op(0.0)
        op["gap"] = r.choice([1.0, 50.0, 100000.0])
        ops.append(op)
    if "plant" in state:
        ops.append({"op": "plant", "items": [{"kind": "archive_version_dir", "archive": "A0", "idx": r.randrange(4),
                                              "empty": r.random() < 0.4}]})
    # earlier attempts in the same project: a restore that failed (other corruption) or was killed midway
    for _ in range(r.choice([0, 0, 1, 1, 2])):
        pre = {"op": "restore", "archive": "A0", "cwd": ""}
        c = r.random()
        if c < 0.5:
            pre["corrupt"] = r.choice([x for x in CORRUPTIONS if x])
        elif c < 0.9:
            pre["kill"] = int(10 ** r.uniform(1.8, 3.0))
        ops.append(pre)
    if r.random() < 0.25:
        # results of another checkout with the same version ids but other contents
        exps = [t for t, d in scn["tasks"].items() if d["kind"] == "exp"]
        if exps:
            ops.append({"op": "foreign", "clock_of_step": 0, "targets": r.sample(exps, 1), "out": "F0"})
    corrupt = r.choice(CORRUPTIONS)
    rop = {"op": "restore", "archive": "F0" if ops[-1]["op"] == "foreign" and r.random() < 0.7 else "A0",
           "cwd": r.choice(["", ""] + list(scn["pkgs"]))}
    if corrupt:
        rop["corrupt"] = corrupt
    elif r.random() < 0.35:
        rop["tar_killed"] = True
    if r.random() < 0.1:
        # started by a parent that ignores SIGCHLD (inherited across exec): the kernel reaps the tar child
        # itself and its exit status is not available
        rop["sig_ign"] = ["CHLD"]
    if r.random() < 0.2:
        # a non-root user whose outputs hold read-only directories: Conductor cannot remove its own staging copy
        # (shutil.rmtree fails, silently where ignore_errors is set) - in this restore and in the attempts before
        rop["rmtree_fails"] = True
        if r.random() < 0.85 and rop["archive"] == "A0":
            # ... typically: an attempt that was killed after it had unpacked the archive, then the restore of a
            # damaged copy of it
            # (directed crash point: right before the n-th directory the restore creates - the staging directory is
            # the first or second one, the directories of the restored versions come after the extraction)
            ops.append({"op": "restore", "archive": "A0", "cwd": "",
                        "kill_fs": {"name": "mkdir", "match": ".task.", "exclude": "archive-tmp", "n": 1, "when": "call"}})
            rop["corrupt"] = r.choice([{"kind": "no_index"}, {"kind": "missing_member", "idx": 0},
                                       {"kind": "missing_member", "idx": 1}, {"kind": "truncate", "frac": 0.5}])
            rop.pop("tar_killed", None)
        for o in ops:
            if o["op"] == "restore":
                o["rmtree_fails"] = True
    ops.append(rop)
    step = len(ops) - 1
    if r.random() < 0.3:
        ops.append({"op": "restore", "archive": "A0", "cwd": ""})     # second restore: duplicates
    scn["history"] = ops
    scn["enum"] = {"step": step, "budget": 20 if _tier() == "quick" else 600}
    return scn


GEN["C12"] = gen_C12


def gen_C16(r):
    if r.random() < 0.3:
        # several tasks in flight at once: the signal lands while others are being launched / reaped
        scn = _fanout_scenario(r, stop_early_p=0.2, fail_p=r.choice([0.0, 0.15, 0.3]))
        scn["knobs"]["mon"] = True
        scn["knobs"]["p_async"] = r.choice([0.0, 1e-3, 5e-3])
        op = scn["history"][0]
        if r.random() < 0.4:
            op["flags"]["jobs"] = r.choice([2, 3])
        for t, lst in op["scripts"].items():
            for sc in lst:
                if sc["end"] == ["exit", 0] and len(sc["steps"]) < 4:
                    sc["steps"] = sc["steps"] + [["nop"]] * r.choice([2, 4, 8])
        scn["enum"] = {"step": 0, "budget": 120 if _tier() == "quick" else 6000}
        if r.random() < 0.4:
            op["second_signal"] = "s%d" % r.randrange(10**6)
        elif r.random() < 0.4:
            # the reader of cond's stdout stops reading for a while (paused pager, Ctrl-S): status lines block
            op["own_stdout"] = {"mode": "tty", "stall_at": r.choice([0, 60, 150, 300, 600]),
                                "stall_len": r.choice([5, 15, 40])}
        return scn
    scn = _small_project(r, n=(2, 5), kinds={"exp": 6, "cmd": 3, "group": 1, "combine": 1}, p_par=0.7)
    scn["knobs"]["p_async"] = r.choice([0.0, 1e-3, 5e-3, 2e-2])
    if r.random() < 0.2:
        S.add_include(r, scn)          # the signal may land while an include()d file is being evaluated
    if r.random() < 0.12:
        # a COND file that changes the disposition of some other signal while it is parsed
        scn["cond_prelude"] = r.choice(sorted({S.split_tid(t)[0] for t in scn["tasks"]}))
    ops = []
    if r.random() < 0.15:
        exps_ = [t for t, d in scn["tasks"].items() if d["kind"] == "exp"]
        ops.append({"op": "legacy_index", "rows": [[t, scn["epoch"] - 1000 - 7 * j] for j, t in enumerate(exps_[:3])]})
    elif r.random() < 0.3:
        ops.append(_run_op(r, scn["tasks"], jobs_choices=(None, 2), again_p=0.0, files=False, cwds=("",)))
    op = _run_op(r, scn["tasks"], jobs_choices=(None, 1, 2, 2, 3), again_p=0.7,
                 fail_p=r.choice([0.0, 0.0, 0.2]), files=r.random() < 0.5, out=r.random() < 0.5, cwds=("",),
                 stop_early_p=0.1)
    # children that stay in flight for a while
    for t, lst in op["scripts"].items():
        for sc in lst:
            sc["steps"] = sc["steps"] + [["nop"]] * r.choice([0, 1, 3, 6])
            if r.random() < 0.3:
                sc["term_delay"] = r.choice([1, 3])
    if r.random() < 0.3 and not any(o["op"] == "legacy_index" for o in ops):
        # git-managed project with versions recorded at earlier commits: planning talks to git
        scn["disable_git"] = False
        pre = [{"op": "git", "action": "init"}, {"op": "git", "action": "commit", "name": "c0"},
               _run_op(r, scn["tasks"], jobs_choices=(None, 2), again_p=0.0, files=False, cwds=("",)),
               {"op": "git", "action": "commit", "name": "c1"}]
        if r.random() < 0.5:
            pre += [_run_op(r, scn["tasks"], jobs_choices=(None,), again_p=1.0, files=False, cwds=("",)),
                    {"op": "git", "action": "commit", "name": "c2"}]
        ops = pre + [o for o in ops if o["op"] != "run"]
        op["flags"].pop("again", None)
        if r.random() < 0.3:
            op["flags"]["this_commit"] = True
    if r.random() < 0.1:
        op["sig_ign"] = ["INT"]
    elif r.random() < 0.12:
        # `cond run ... | reader` and the interrupt takes the reader down too: Conductor's own stdout fails
        # with EPIPE from the moment of the signal (I/O fault on the reporting path)
        op["stdout_gone_on_signal"] = True
    if r.random() < 0.3:
        # an impatient second Ctrl-C / a batch system repeating its SIGTERM
        op["second_signal"] = "s%d" % r.randrange(10**6)
    if r.random() < 0.15:
        op["flags"]["debug"] = True        # cond --debug run ...
    ops.append(op)
    scn["history"] = ops
    scn["enum"] = {"step": len(ops) - 1, "budget": 120 if _tier() == "quick" else 6000}
    return scn


GEN["C16"] = gen_C16


# ---------------------------------------------------------------------------------------------

def _stream_script(r):
    steps = []
    n = r.choice([0, 1, 2, 3, 5, 8])
    for _ in range(n):
        steps.append([r.choice(["out", "out", "err"]),
                      {"k": r.choice(["txt", "bin", "all"]),
                       "n": r.choice([0, 1, 2, 10, 100, 4095, 4096, 4097, 8192, 20000, 65536, 70000, 140000]),
                       "seed": r.randrange(1 << 30)}])
    if r.random() < 0.3:
        steps.insert(r.randint(0, len(steps)), ["file", "data/x.bin", {"k": "bin", "n": 100, "seed": 1}])
    sc = {"steps": steps, "end": ["exit", r.choice([0, 0, 0, 0, 3])]}
    if r.random() < 0.3:
        sc["instant_exit"] = True
    if r.random() < 0.15:
        st_ = r.choice(["out", "err"])
        sc["bg"] = {"stream": st_, "steps": [[st_, {"k": "txt", "n": r.choice([5, 300, 9000]), "seed": r.randrange(1 << 30)}]
                                              for _ in range(r.randint(1, 3))]}
    return sc


def gen_C10(r):
    pk = _pkgs(r)
    tasks = S.gen_graph(r, r.randint(1, 4), {"exp": 9, "cmd": 1, "group": 1, "xgroup": 2}, pk, p_par=0.5)
    for t, d in tasks.items():
        if d["kind"] in ("exp", "cmd"):
            if r.random() < 0.6:
                d["args"] = [S.gen_value(r, odd=True) for _ in range(r.randint(1, 4))]
            else:
                d.pop("args", None)
            if r.random() < 0.6:
                keys = r.sample(["threads", "mem", "mode", "fast", "alpha", "z", "a-b", "x_y"], r.randint(1, 4))
                d["options"] = {k: S.gen_value(r, odd=True) for k in keys}
            else:
                d.pop("options", None)
    scn = {"epoch": 1_700_000_000 + r.randrange(10**6), "tasks": tasks, "pkgs": pk,
           "git": {"mode": "none"}, "disable_git": True, "history": [], "_inc": r.random() < 0.2,
           "knobs": {"mon": r.random() < 0.6, "p_async": r.choice([0.0, 1e-3, 1e-2, 5e-2]),
                     "p_burst": r.choice([0.0, 0.5]), "bias": r.choice(["uniform", "fifo", "lifo"]),
                     "cpu_count": 2}}
    for _ in range(r.choice([1, 1, 2])):
        flags = {}
        j = r.choice([None, None, 1, 2, 3])
        if j is not None:
            flags["jobs"] = j
        if r.random() < 0.5:
            flags["again"] = True
        op = {"op": "run", "target": S.pick_target(r, tasks), "flags": flags, "cwd": "",
              "gap": r.choice([0.0, 1.0, 3.0]), "scripts": {}}
        for t, d in tasks.items():
            if d["kind"] in ("exp", "cmd"):
                op["scripts"][t] = [_stream_script(r), _stream_script(r)]
        if r.random() < 0.12:
            # the run is interrupted while tasks are writing: what they had written is in their logs
            scn["knobs"]["mon"] = True
            op["signal"] = {"sig": r.choice(["INT", "TERM"]), "cp": int(10 ** r.uniform(2.6, 3.7))}
            for lst in op["scripts"].values():
                for sc in lst:
                    if r.random() < 0.5:
                        sc["term_delay"] = r.choice([1, 2, 4])
        scn["history"].append(op)
    if scn.pop("_inc"):
        S.add_include(r, scn)
    return scn


GEN["C10"] = gen_C10


# ---------------------------------------------------------------------------------------------

def _tree_script(r):
    steps = []
    for _ in range(r.randint(0, 4)):
        steps.append(["file", r.choice(["res.csv", "data/out.bin", "m.txt", "d/e/f.json", "d/e/g.json", "x.task.5/inner.txt",
                                         "logs/run.task/l.txt"]),
                      {"k": r.choice(["bin", "txt", "all"]), "n": r.choice([0, 1, 100, 5000, 70000]), "seed": r.randrange(1 << 30)}])
    if r.random() < 0.3:
        # names that filters written for tidiness (hidden files, editor / OS / VCS droppings, caches) would drop
        for nm in r.sample(["._res.csv", ".DS_Store", ".hidden", ".git/config", ".gitignore", "__pycache__/m.pyc", "m.txt~",
                            "#m.txt#", "core", "Thumbs.db", "a b.txt", "-x.txt", "d/._cache/k", "caf\u00e9.txt", ".nfs0001",
                            "x.tmp", "x.bak", "x.swp", "node_modules/p/i.js", "CVS/Root", "tmp/t"], r.randint(1, 3)):
            steps.append(["file", nm, {"k": "txt", "n": r.choice([0, 7, 300]), "seed": r.randrange(1 << 30)}])
    if r.random() < 0.25:
        steps.append(["mkdir", r.choice(["emptydir", "d/empty", ".cache", "._d"])])
    if r.random() < 0.15:
        steps.append(["symlink", "latest", "m.txt"])
    if r.random() < 0.3:
        steps.append([r.choice(["out", "err"]), {"k": "txt", "n": r.choice([10, 300]), "seed": r.randrange(1 << 30)}])
    r.shuffle(steps)
    return {"steps": steps, "end": ["exit", 0]}


def gen_C11(r):
    pk = _pkgs(r)
    tasks = S.gen_graph(r, r.randint(2, 7), {"exp": 6, "cmd": 2, "group": 1, "combine": 1}, pk, p_par=0.3)
    scn = {"epoch": 1_700_000_000 + r.randrange(10**6), "tasks": tasks, "pkgs": pk,
           "git": {"mode": "none"}, "disable_git": r.random() < 0.5, "history": [],
           "knobs": S.gen_knobs(r, mon=False, p_async_choices=(0.0,))}
    ops = []
    if r.random() < 0.1:
        # two packages share an included file and extend its lists in place (each COND file gets fresh objects)
        S.add_include(r, scn)
    if not scn["disable_git"] and r.random() < 0.6:
        ops += [{"op": "git", "action": "init"}, {"op": "git", "action": "commit", "name": "c0"}]
    exps = [t for t, d in tasks.items() if d["kind"] == "exp"]

    def run_op(again_p):
        op = _run_op(r, tasks, jobs_choices=(None, None, 2), again_p=again_p, fail_p=r.choice([0.0, 0.0, 0.2]),
                     files=False, cwds=("",), target=r.choice(list(tasks)) if r.random() < 0.4 else None)
        for t, d in tasks.items():
            if d["kind"] in ("exp", "cmd"):
                fail = op["scripts"].get(t, [{}])[0].get("end", ["exit", 0]) != ["exit", 0] or op["scripts"].get(t, [{}])[0].get("launch")
                if not fail:
                    op["scripts"][t] = [_tree_script(r), _tree_script(r)]
        return op

    for k in range(r.randint(1, 4)):
        ops.append(run_op(0.0 if k == 0 else 0.6))
        if ops[0]["op"] == "git" and r.random() < 0.5:
            ops.append({"op": "git", "action": "commit", "name": "c%d" % (k + 1)})
            if r.random() < 0.3:
                ops.append({"op": "git", "action": "dirty", "value": True})
    # results produced in another checkout of the same project at the very same time (version ids are
    # only unique per index), merged in through an archive
    run_idx = [j for j, o in enumerate(ops) if o["op"] == "run"]
    if exps and r.random() < 0.4:
        ops.append({"op": "foreign", "clock_of_step": r.choice(run_idx), "targets": r.sample(exps, r.randint(1, min(2, len(exps)))),
                    "out": "F0"})
        ops.append({"op": "restore", "archive": "F0", "cwd": ""})
        if r.random() < 0.8:
            ops.append(run_op(0.8))
    target = None
    c = r.random()
    if c < 0.45:
        target = r.choice(list(tasks))
    out = "A0" if r.random() < 0.8 else None
    commits_ = [o["name"] for o in ops if o["op"] == "git" and o.get("action") == "commit"]
    if len(commits_) >= 1 and r.random() < (0.6 if target else 0.25):
        # archive from another point of the history: an older commit (detached) or a new branch off it - what is
        # archived does not depend on what is checked out
        co = {"op": "git", "action": "checkout", "target": r.choice(commits_)}
        if r.random() < 0.5:
            co["new_branch"] = "side"
        ops.append(co)
        if r.random() < 0.5:
            ops.append({"op": "git", "action": "commit", "name": "s0"})
    if r.random() < 0.2:
        # an earlier archive command that was killed (its temporary index may stay behind)
        scn["knobs"]["mon"] = True
        ops.append({"op": "archive", "target": r.choice([None] + exps) if exps else None, "out": "K0",
                    "flags": {"latest": r.random() < 0.3}, "cwd": "", "kill": int(10 ** r.uniform(2.2, 3.3))})
    ops.append({"op": "archive", "target": target, "out": out, "flags": {"latest": r.random() < 0.4},
                "cwd": r.choice(["", ""] + pk)})
    ops.append({"op": "clean", "cwd": ""} if out and r.random() < 0.6 else {"op": "wipe"})
    if r.random() < 0.2:
        ops.append({"op": "git", "action": "dirty", "value": False})
    ops.append({"op": "restore", "archive": out or "@default", "cwd": r.choice(["", ""] + pk)})
    if r.random() < 0.5:
        ops.append({"op": "where", "target": r.choice(exps) if exps else r.choice(list(tasks)), "flags": {}, "cwd": ""})
    if r.random() < 0.3:
        ops.append(run_op(0.0))
    if out and r.random() < 0.12:
        # an unrecorded left-over directory (a failed run of the same second) sits where a version of the
        # archive belongs: whatever restore does, it must not hand back a mixture of the two trees
        i = max(j for j, o in enumerate(ops) if o["op"] == "restore")
        ops.insert(i, {"op": "plant", "items": [{"kind": "archive_version_dir", "archive": out, "idx": r.randrange(4),
                                                 "empty": r.random() < 0.3}]})
    scn["history"] = ops
    return scn


GEN["C11"] = gen_C11


# ---------------------------------------------------------------------------------------------

def _plants(r):
    items = []
    pool = [
        {"kind": "file", "path": "notes.txt"},
        {"kind": "file", "path": "p/readme.task.123"},                      # a *file* with a look-alike name
        {"kind": "dir", "path": "misc/stuff", "files": ["a.txt", "deep/b.txt"]},
        {"kind": "dir", "path": "zzz.task.12345", "files": ["old.csv"]},       # unrecorded experiment output
        {"kind": "dir", "path": "p/q/old-run.task.777", "files": ["x/y.bin"]},
        {"kind": "dir", "path": "newpkg/sub/t_1.task.5", "files": []},
        {"kind": "dir", "path": "manual.task", "files": ["keep.txt"]},         # looks like a run_command output
        {"kind": "dir", "path": "manual.task/inner.task.9", "files": ["keep2.txt"]},
        {"kind": "dir", "path": "inner.task.5", "files": ["nested.txt"], "inside": "any", "idx": r.randrange(5)},
        {"kind": "dir", "path": "sub/deep.task.42", "files": ["nested.txt"], "inside": "exp", "idx": r.randrange(5)},
        {"kind": "dir", "path": "x.task.0", "files": ["zero.txt"]},            # timestamp 0 is not a version id
        {"kind": "dir", "path": "bad name.task.5", "files": ["f"]},
        {"kind": "dir", "path": "pretask.123", "files": ["not-an-output.txt"]},        # no "<name>.task.<n>" at all
        {"kind": "dir", "path": "xtask", "files": ["plain.txt"]},
    ]
    for it in pool:
        if r.random() < (0.5 if it.get("inside") or "/inner" in it["path"] else 0.3):
            items.append(it)
    if r.random() < 0.25:
        items.append({"kind": "dir", "outside": True, "path": "outside/data/y.task.77", "files": ["precious.txt"]})
        items.append({"kind": "dir", "outside": True, "path": "outside/data/plain", "files": ["p.txt"]})
        items.append({"kind": "symlink", "path": r.choice(["ext", "p/ext"]), "target_outside": "outside/data"})
    if r.random() < 0.15:
        items.append({"kind": "dir", "outside": True, "path": "outside/one", "files": ["o.txt"]})
        items.append({"kind": "symlink", "path": "linked.task.99", "target_outside": "outside/one"})
    return items


def gen_C13(r):
    scn = _base(r, n=(2, 6), kinds={"exp": 7, "cmd": 2, "group": 1, "combine": 1}, p_par=0.4, mon=True,
                p_async=(0.0, 1e-3))
    ops = []
    have_arch = False
    for k in range(r.randint(1, 4)):
        op = _run_op(r, scn["tasks"], jobs_choices=(None, None, 2), again_p=0.5, fail_p=r.choice([0.0, 0.3, 0.5]),
                     files=True, cwds=("",), stop_early_p=0.15)
        f = r.random()
        if f < 0.15:
            op["signal"] = {"sig": r.choice(["INT", "TERM"]), "cp": int(10 ** r.uniform(2.0, 3.6))}
        elif f < 0.3:
            op["kill"] = int(10 ** r.uniform(2.0, 3.6))
        ops.append(op)
        if r.random() < 0.25 and not have_arch:
            ops.append({"op": "archive", "out": "A0", "cwd": ""})
            have_arch = True
    if have_arch and r.random() < 0.7:
        if r.random() < 0.5:
            ops.append({"op": "clean", "cwd": ""})
        rop = {"op": "restore", "archive": "A0", "cwd": ""}
        c = r.random()
        if c < 0.3:
            rop["kill"] = int(10 ** r.uniform(1.8, 3.2))
        elif c < 0.5:
            rop["corrupt"] = {"kind": "missing_member", "idx": r.randrange(3)}
        ops.append(rop)
    if r.random() < 0.25:
        exps = [t for t, d in scn["tasks"].items() if d["kind"] == "exp"]
        runs_ = [j for j, o in enumerate(ops) if o["op"] == "run"]
        if exps and runs_:
            ops.append({"op": "foreign", "clock_of_step": r.choice(runs_), "targets": r.sample(exps, r.randint(1, min(2, len(exps)))),
                        "out": "F0"})
            ops.append({"op": "restore", "archive": "F0", "cwd": ""})
    if r.random() < 0.7:
        ops.append({"op": "plant", "items": _plants(r)})
    if r.random() < 0.15:
        ops.append({"op": "plant", "items": [{"kind": "relocate_recorded", "idx": r.randrange(6),
                                              "what": r.choice(["version", "package"])}]})
    if r.random() < 0.2:
        scn["enclosing"] = True
    elif r.random() < 0.12:
        scn["condout_symlink"] = True        # results live on another volume: cond-out is a symbolic link
    if r.random() < 0.06:
        # cond-out of Conductor <= 0.4 with recorded versions; the first command of this Conductor (it upgrades the
        # index) is killed; gc comes later
        exps_ = [t for t, d in scn["tasks"].items() if d["kind"] == "exp"]
        if exps_:
            ops = [{"op": "legacy_index", "rows": [[t, scn["epoch"] - 7000 - 13 * j] for j, t in enumerate(exps_[:3])]},
                   {"op": "where", "target": exps_[0], "flags": {}, "cwd": "", "kill": int(10 ** r.uniform(1.0, 2.6))}] + \
                  [o for o in ops if o["op"] not in ("plant",)]
    n_gc = r.choice([1, 1, 2])
    for k in range(n_gc):
        ops.append({"op": "gc", "flags": {"dry": r.random() < 0.45, "verbose": r.random() < 0.4},
                    "cwd": r.choice(["", "", ""] + [p_ for p_ in scn["pkgs"] if p_] +
                                    # (a working directory inside a symlinked cond-out is physically outside the project)
                                    ([] if scn.get("condout_symlink") else ["cond-out"]))})
    if r.random() < 0.3:
        ops.append(_run_op(r, scn["tasks"], jobs_choices=(None,), again_p=0.0, files=False, cwds=("",)))
    scn["history"] = ops
    return scn


GEN["C13"] = gen_C13


# ---------------------------------------------------------------------------------------------

def gen_C18(r):
    pk = _pkgs(r)
    for _ in range(20):
        tasks = S.gen_graph(r, r.randint(3, 8), {"exp": 4, "cmd": 3, "group": 1, "combine": 3}, pk, p_par=0.4)
        if any(d["kind"] == "combine" for d in tasks.values()):
            break
    scn = {"epoch": 1_700_000_000 + r.randrange(10**6), "tasks": tasks, "pkgs": pk,
           "git": {"mode": "none"}, "disable_git": r.random() < 0.6, "history": [],
           "knobs": S.gen_knobs(r, mon=False, p_async_choices=(0.0,))}
    combines = [t for t, d in tasks.items() if d["kind"] == "combine"]
    ops = []
    if not scn["disable_git"] and r.random() < 0.5:
        ops += [{"op": "git", "action": "init"}, {"op": "git", "action": "commit", "name": "c0"}]
    for k in range(r.randint(1, 4)):
        tgt = r.choice(combines) if combines and r.random() < 0.7 else S.pick_target(r, tasks)
        op = _run_op(r, tasks, jobs_choices=(None, None, 2, 3), again_p=0.5 if k else 0.0,
                     fail_p=r.choice([0.0, 0.0, 0.15]), files=False, cwds=[""] + pk, target=tgt)
        for t, d in tasks.items():
            if d["kind"] in ("exp", "cmd") and op["scripts"].get(t):
                for sc in op["scripts"][t]:
                    if r.random() < 0.6:
                        sc["steps"].append(["file", r.choice(["res.csv", "d/x.bin"]), {"k": "bin", "n": 10, "seed": r.randrange(1 << 30)}])
        if combines and r.random() < 0.2:
            c = r.choice(combines)
            deps = [d for d in tasks[c]["deps"] if tasks[d]["kind"] != "group"]
            if deps:
                d = r.choice(deps)
                from . import model as M_

                ops.append({"op": "plant", "items": [{"kind": r.choice(["file", "dir"]),
                                                      "path": M_.out_dir_rel(c) + "/" + S.split_tid(d)[1],
                                                      "files": ["mine.txt"]}]})
                op["combine_conflict_hint"] = c
        elif r.random() < 0.1:
            # the run is killed right before / after the n-th link it makes (a half-updated combine directory
            # stays behind); it is repeated with new versions afterwards
            kop = dict(op, kill_fs={"name": r.choice(["symlink", "symlink", "unlink"]), "n": r.randint(1, 3),
                                    "when": r.choice(["call", "ret"])})
            ops.append(kop)
            op = dict(op, flags=dict(op["flags"], again=True), gap=r.choice([1.0, 2.0]))
        elif k and combines and r.random() < 0.08:
            # the output directory of a combine task moved to another volume (a symbolic link took its place): the
            # entries made from now on must still lead to the dependencies' outputs
            from . import model as M_

            ops.append({"op": "plant", "items": [{"kind": "relocate_path", "path": M_.out_dir_rel(r.choice(combines))}]})
        elif k and r.random() < 0.15:
            # an old version directory deleted by hand to free space (the entry that points at it dangles), or
            # moved to another volume and replaced by a symbolic link
            ops.append({"op": "plant", "items": [r.choice([{"kind": "remove_recorded_dir", "idx": r.randrange(6)},
                                                           {"kind": "relocate_recorded", "idx": r.randrange(6), "what": "version"}])]})
        ops.append(op)
        if ops[0]["op"] == "git" and r.random() < 0.45:
            ops.append({"op": "git", "action": "commit", "name": "c%d" % (k + 1)})
    commits_ = [o["name"] for o in ops if o["op"] == "git" and o.get("action") == "commit"]
    if len(commits_) >= 2 and combines and r.random() < 0.6:
        # back to an older commit: other versions are selected although nothing needs to run - the entries follow
        ops.append({"op": "git", "action": "checkout", "target": r.choice(commits_[:-1])})
        ops.append({"op": "run", "target": r.choice(combines), "flags": {}, "cwd": "", "gap": 1.0, "scripts": {}})
    scn["history"] = ops
    return scn


GEN["C18"] = gen_C18


def gen_C17(r):
    pk = _pkgs(r)
    tasks = S.gen_graph(r, r.randint(2, 6), KW_ALL, pk, p_par=0.4)
    # "cond" / "co": directories whose path is a string prefix (not a path prefix) of <root>/cond-out
    scn = {"epoch": 1_700_000_000 + r.randrange(10**6), "tasks": tasks,
           "pkgs": pk + ["nocond", "nocond/deeper", "cond", "co"],
           "git": {"mode": "none"}, "disable_git": r.random() < 0.6, "history": [],
           "knobs": S.gen_knobs(r, mon=False, p_async_choices=(0.0,))}
    from . import model as M_

    cwd_pool = [p for p in pk if p] + ["nocond", "nocond/deeper", "cond-out", "cond-out", "cond", "co"] + \
        ["cond-out/" + M_.out_dir_rel(t) for t, d in tasks.items() if d["kind"] in ("cmd", "combine")]
    for t in tasks:
        p = S.split_tid(t)[0]
        if p:
            cwd_pool.append("cond-out/" + p)
    ops = []
    use_git = not scn["disable_git"] and r.random() < 0.5
    if use_git:
        ops += [{"op": "git", "action": "init"}, {"op": "git", "action": "commit", "name": "c0"}]
        if r.random() < 0.5:
            ops.append({"op": "git", "action": "nested", "dir": "nocond/deeper"})
            cwd_pool += ["nocond/deeper"] * 3
    cwd_pool += ["@expdir:%d" % r.randrange(6), "@expdir:%d" % r.randrange(6), "@insideexp:%d" % r.randrange(6)]
    if r.random() < 0.3:
        scn["enclosing"] = True
    elif r.random() < 0.05:
        scn["condout_symlink"] = "dangling-relative"
    if r.random() < 0.25:
        S.add_include(r, scn)
    have_arch = None
    for k in range(r.randint(2, 8)):
        c = r.random()
        cwd = r.choice(cwd_pool)
        if c < 0.35 or k == 0:
            op = _run_op(r, tasks, jobs_choices=(None, None, 2), again_p=0.4, fail_p=r.choice([0.0, 0.2, 0.4]),
                         files=True, cwds=(cwd,), target=r.choice(list(tasks)) if r.random() < 0.5 else None)
            if r.random() < 0.15:
                op["flags"]["check"] = True
            if use_git and r.random() < 0.35:
                op["flags"].pop("again", None)
                if r.random() < 0.5:
                    op["flags"]["this_commit"] = True
                else:
                    op["flags"]["at_least"] = r.choice(["HEAD", "main", sim_hash("c0")])
            if use_git and r.random() < 0.2:
                ops.append({"op": "git", "action": "commit", "name": "c%d" % (k + 1)})
        elif c < 0.55:
            op = {"op": "where", "target": r.choice(list(tasks)),
                  "flags": {"project": r.random() < 0.4, "nonexist": r.random() < 0.3}, "cwd": cwd}
        elif c < 0.75:
            op = {"op": "gc", "flags": {"dry": r.random() < 0.5, "verbose": r.random() < 0.5}, "cwd": cwd}
        elif c < 0.87:
            name = "A%d" % k if r.random() < 0.7 else None
            op = {"op": "archive", "target": r.choice([None, None] + list(tasks)), "out": name,
                  "flags": {"latest": r.random() < 0.3}, "cwd": cwd}
            if name:
                have_arch = name
            elif r.random() < 0.85 and not str(cwd).startswith(("cond-out", "@")):
                op["out_rel"] = "rel-%d.tar.gz" % k
        elif c < 0.95 and have_arch:
            if r.random() < 0.5:
                ops.append({"op": "clean", "cwd": r.choice(cwd_pool)})
            op = {"op": "restore", "archive": have_arch, "cwd": cwd}
        else:
            op = {"op": "clean", "cwd": cwd}
        if scn.get("enclosing") and r.random() < (0.45 if op["op"] == "where" else 0.2) and op["op"] in ("where", "gc", "run", "archive"):
            # started by a task of the enclosing project (nested invocation): its COND_* variables are inherited
            op["env"] = {"COND_OUT": "@outer-project-out", "COND_NAME": "outer", "COND_DEPS": ""}
        ops.append(op)
    if r.random() < 0.12:
        # gc started from inside an experiment output directory while several unrecorded ones (failed
        # executions) exist: one of the directories gc removes may be the working directory itself
        for _ in range(2):
            ops.append(_run_op(r, tasks, jobs_choices=(None, 2), again_p=1.0, fail_p=0.7, files=True,
                               cwds=("",), gap=r.choice([1.0, 2.0])))
        ops.append({"op": "gc", "flags": {"dry": r.random() < 0.2, "verbose": r.random() < 0.8},
                    "cwd": r.choice(["@expdir:%d" % r.randrange(8), "@insideexp:%d" % r.randrange(8)])})
    if r.random() < 0.3:
        for op in ops:
            if op.get("cwd") and op["op"] != "git" and not op.get("env") and r.random() < 0.6:
                op["via_symlink"] = True
    scn["history"] = ops
    return scn


GEN["C17"] = gen_C17


# ---- C05: structured templates on top of the random git histories -------------------------------

def _c05_ops_where_run(r, tasks, exps, n=2):
    ops = []
    for _ in range(n):
        if r.random() < 0.5:
            ops.append({"op": "where", "target": r.choice(exps or list(tasks)),
                        "flags": {"project": r.random() < 0.3}, "cwd": ""})
        else:
            f = {}
            c = r.random()
            if c < 0.2:
                f["this_commit"] = True
            elif c < 0.3:
                f["again"] = True
            ops.append({"op": "run", "target": S.pick_target(r, tasks, 0.7), "flags": f, "cwd": "",
                        "gap": r.choice([0.0, 1.0, 5.0]), "scripts": {}})
    return ops


def _c05_template_merge(r, tasks, exps):
    """versions recorded on both sides of a merge, at different depths"""
    ops = [{"op": "git", "action": "init"}, {"op": "git", "action": "commit", "name": "c0"}]
    k = [1]

    def commit(parents=None):
        name = "c%d" % k[0]
        k[0] += 1
        op = {"op": "git", "action": "commit", "name": name}
        if parents:
            op["parents"] = parents
        ops.append(op)
        return name

    def maybe_run(p):
        if r.random() < p:
            ops.append({"op": "run", "target": r.choice(exps) if exps else S.pick_target(r, tasks),
                        "flags": {"again": True} if r.random() < 0.7 else {}, "cwd": "",
                        "gap": r.choice([0.0, 1.0, 3.0]), "scripts": {}})

    maybe_run(0.3)
    ops.append({"op": "git", "action": "checkout", "target": "c0", "new_branch": "feat"})
    tip_f = "c0"
    for _ in range(r.randint(1, 4)):
        tip_f = commit()
        maybe_run(0.55)
    ops.append({"op": "git", "action": "checkout", "target": "main"})
    tip_m = "c0"
    for _ in range(r.randint(1, 3)):
        tip_m = commit()
        maybe_run(0.55)
    if r.random() < 0.4:
        # back to the feature branch for one more execution there (versions in the order X, Y, X)
        ops.append({"op": "git", "action": "checkout", "target": "feat"})
        maybe_run(1.0)
        ops.append({"op": "git", "action": "checkout", "target": "main"})
    first, second = (tip_m, tip_f) if r.random() < 0.7 else (tip_f, tip_m)
    if first != second:
        commit(parents=[first, second])
    for _ in range(r.randint(0, 2)):
        commit()
        maybe_run(0.2)
    ops += _c05_ops_where_run(r, tasks, exps, r.randint(1, 3))
    if r.random() < 0.6:
        # "at least as new as" a commit of either side of the merge
        for _ in range(r.randint(1, 2)):
            ops.append({"op": "run", "target": S.pick_target(r, tasks, 0.7),
                        "flags": {"at_least": r.choice([sim_hash(tip_f), sim_hash(tip_m), "feat", sim_hash("c0")])},
                        "cwd": "", "gap": 1.0, "scripts": {}})
    return ops


def _c05_template_null_foreign(r, tasks, exps):
    """a commit-less version plus a version from a commit that is not an ancestor of HEAD"""
    ops = []
    start = r.choice(["nogit", "disabled", "empty"])
    run0 = {"op": "run", "target": S.pick_target(r, tasks, 0.8), "flags": {}, "cwd": "", "gap": 0.0, "scripts": {}}
    if start == "nogit":
        ops += [run0, {"op": "git", "action": "init"}]
    elif start == "disabled":
        ops += [{"op": "config", "disable_git": True}, {"op": "git", "action": "init"},
                {"op": "git", "action": "commit", "name": "c0"}, run0, {"op": "config", "disable_git": False}]
    else:
        ops += [{"op": "git", "action": "init"}, run0]
    ops.append({"op": "git", "action": "commit", "name": "a0"})
    if r.random() < 0.3:
        ops.append({"op": "git", "action": "commit", "name": "a1"})
    ops.append({"op": "git", "action": "checkout", "target": "a0", "new_branch": "feature"})
    ops.append({"op": "git", "action": "commit", "name": "f0"})
    ops.append({"op": "run", "target": r.choice(exps) if exps and r.random() < 0.5 else S.pick_target(r, tasks, 0.8),
                "flags": {"again": True}, "cwd": "", "gap": 2.0, "scripts": {}})
    ops.append({"op": "git", "action": "checkout", "target": "main"})
    if r.random() < 0.3:
        ops.append({"op": "git", "action": "commit", "name": "a2"})
    if r.random() < 0.3:
        # history thrown away (rm -rf .git && git init, or an orphan branch): HEAD has no commit yet,
        # the recorded versions still carry the old hashes
        ops.append({"op": "git", "action": "init"})
    ops += _c05_ops_where_run(r, tasks, exps, r.randint(1, 3))
    return ops


def _c05_template_reinserted(r, tasks, exps):
    """rows that enter the index out of chronological order: older versions come back through
    `cond restore` after newer ones were recorded (insertion order != age)"""
    ops = []
    start = r.choice(["nogit", "nogit", "disabled", "empty", "repo"])
    if start == "disabled":
        ops.append({"op": "config", "disable_git": True})
    if start in ("empty", "repo") or (start == "disabled" and r.random() < 0.5):
        ops.append({"op": "git", "action": "init"})
        if start != "empty":
            ops.append({"op": "git", "action": "commit", "name": "c0"})

    def run(again, gap):
        return {"op": "run", "target": r.choice(exps) if exps and r.random() < 0.4 else S.pick_target(r, tasks, 0.8),
                "flags": {"again": True} if again else {}, "cwd": "", "gap": gap, "scripts": {}}

    ops.append(run(False, 0.0))
    if r.random() < 0.3:
        ops.append(run(True, r.choice([1.0, 4.0])))
    ops.append({"op": "archive", "target": r.choice([None, None] + exps), "out": "A0",
                "flags": {"latest": r.random() < 0.3}, "cwd": ""})
    ops.append({"op": "clean", "cwd": ""})
    ops.append(run(False, r.choice([1.0, 2.0, 60.0])))
    if start == "repo" and r.random() < 0.4:
        ops.append({"op": "git", "action": "commit", "name": "c1"})
    if r.random() < 0.3:
        ops.append(run(True, r.choice([1.0, 3.0])))
    ops.append({"op": "restore", "archive": "A0", "cwd": ""})
    ops += _c05_ops_where_run(r, tasks, exps, r.randint(1, 3))
    ops.append(run(False, 1.0))
    return ops


_gen_C05_random = gen_C05


def _c05_sigchld_ignored(r, scn):
    """some commands are started by a parent that ignores SIGCHLD (the disposition survives exec)"""
    for op in scn["history"]:
        if op["op"] in ("run", "where") and r.random() < 0.06:
            op["sig_ign"] = ["CHLD"]
    return scn


def gen_C05(r):  # noqa: F811
    return _c05_sigchld_ignored(r, _gen_C05_templates(r))


def _gen_C05_templates(r):
    c = r.random()
    if c < 0.45:
        return _gen_C05_random(r)
    pk = _pkgs(r)
    tasks = S.gen_graph(r, r.randint(2, 4), {"exp": 8, "cmd": 1, "group": 1, "combine": 1}, pk, p_par=0.3)
    exps = [t for t, d in tasks.items() if d["kind"] == "exp"]
    scn = {"epoch": 1_700_000_000 + r.randrange(10**6), "tasks": tasks, "pkgs": pk,
           "git": {"mode": "none"}, "disable_git": False, "history": [],
           "knobs": S.gen_knobs(r, mon=False, p_async_choices=(0.0,))}
    if c < 0.74:
        scn["history"] = _c05_template_merge(r, tasks, exps)
    elif c < 0.89:
        scn["history"] = _c05_template_null_foreign(r, tasks, exps)
    else:
        scn["history"] = _c05_template_reinserted(r, tasks, exps)
    return scn


GEN["C05"] = gen_C05



# ---- fan-out template reused by other profiles ---------------------------------------------------
_gen_C09_base, _gen_C04_base, _gen_C01_base = gen_C09, gen_C04, gen_C01


def _add_stops(r, scn, p=0.06):
    """job control: a task is suspended (SIGSTOP / SIGTSTP by a user, a batch system) and continued later"""
    for op in scn["history"]:
        if op["op"] != "run":
            continue
        for t, lst in (op.get("scripts") or {}).items():
            for sc in lst:
                if r.random() < p and not sc.get("launch") and not sc.get("instant_exit"):
                    steps = list(sc["steps"])
                    steps.insert(r.randint(0, len(steps)), ["stop", r.choice([19, 20]), r.choice([0, 1, 3, 8])])
                    sc["steps"] = steps
    return scn


def gen_C09(r):  # noqa: F811
    scn = _add_stops(r, _gen_C09_stops(r))
    if r.random() < 0.04:
        # started by a supervisor that blocks SIGCHLD (it collects its children with sigwait / signalfd) and does not
        # reset the signal mask before exec: the mask is inherited
        for op in scn["history"]:
            if op["op"] == "run":
                op["sig_blocked"] = ["CHLD"]
    return scn


def gen_C04(r):  # noqa: F811
    return _add_stops(r, _gen_C04_stops(r))


def _gen_C09_stops(r):
    if r.random() < 0.3:
        scn = _fanout_scenario(r, stop_early_p=0.15, fail_p=r.choice([0.1, 0.3]))
        scn["knobs"]["mon"] = True
        scn["knobs"]["p_async"] = r.choice([1e-3, 1e-2, 5e-2])
        if r.random() < 0.5:
            # fewer slots than tasks: slots are recycled while others are still running
            scn["history"][0]["flags"]["jobs"] = r.choice([2, 2, 3])
        return scn
    return _gen_C09_base(r)


def _gen_C04_stops(r):
    if r.random() < 0.08:
        scn = _gen_C04_base(r)
        pkgs_used = sorted({S.split_tid(t)[0] for t, d in scn["tasks"].items() if d["kind"] in ("exp", "cmd") and not d.get("xg")})
        if len(pkgs_used) >= 2 and not scn.get("dup_dep"):
            # one COND file wraps run_experiment / run_command so that its own tasks default to
            # parallelizable=True; other COND files must not be affected
            wp = r.choice(pkgs_used)
            scn["wrap_pkg"] = wp
            for t, d in scn["tasks"].items():
                if S.split_tid(t)[0] == wp and d["kind"] in ("exp", "cmd") and not d.get("xg"):
                    d["par"] = True
            for o in scn["history"]:
                if o["op"] == "run" and isinstance(o["flags"].get("jobs"), (int, type(None))) and (o["flags"].get("jobs") or 1) < 2:
                    o["flags"]["jobs"] = r.choice([2, 3])
        return scn
    if r.random() < 0.4:
        scn = _fanout_scenario(r, stop_early_p=0.1, fail_p=0.3)
        op = scn["history"][0]
        op["flags"]["jobs"] = r.choice([2, 3, 3, 4, 5, 6, 8, "auto"])
        scn["knobs"]["cpu_count"] = r.choice([2, 3, 4, 8])
        # a second layer that becomes ready while slots are being recycled
        tasks = scn["tasks"]
        leaves = [t for t, d in tasks.items() if d["kind"] != "group" and not d["deps"]]
        top = [t for t, d in tasks.items() if d["kind"] == "group"][0]
        names = [n for n in S.NAMES if all(S.split_tid(t)[1] != n for t in tasks)]
        new = {}
        for i in range(r.randint(1, 4)):
            t = S.tid(r.choice(scn["pkgs"]), names[i])
            dd = r.sample(leaves, r.randint(1, min(2, len(leaves))))
            new[t] = {"kind": "cmd", "deps": dd, "rel": [False] * len(dd), "par": r.random() < 0.85}
        g = tasks.pop(top)
        tasks.update(new)
        g["deps"] = g["deps"] + list(new)
        g["rel"] = [False] * len(g["deps"])
        tasks[top] = g
        return scn
    return _gen_C04_base(r)


def _own_stdout_fault(r, scn, p):
    """I/O fault on Conductor's own stdout: it is a pipe (block buffered) or a terminal (line buffered) whose
    reader goes away after some bytes (`cond run ... | head`); experiments write output (it is forwarded in
    sequential mode) and some of them fail, so that whatever swallows the EPIPE has something to hide"""
    if r.random() >= p:
        return scn
    runs = [o for o in scn["history"] if o["op"] == "run"]
    if not runs:
        return scn
    op = r.choice(runs)
    op["own_stdout"] = {"mode": r.choice(["pipe", "pipe", "tty"]), "gone_after": r.choice([0, 0, 40, 150, 600, 3000])}
    if r.random() < 0.7:
        op["flags"].pop("jobs", None)
    for t, lst in (op.get("scripts") or {}).items():
        if scn["tasks"].get(t, {}).get("kind") != "exp":
            continue
        for sc in lst[:1]:
            if sc.get("launch"):
                continue
            sc["steps"] = list(sc["steps"]) + [[r.choice(["out", "out", "err"]),
                                                {"k": "txt", "n": r.choice([1, 30, 300]), "seed": r.randrange(1 << 30)}]]
            if r.random() < 0.4:
                sc["end"] = ["exit", r.choice([1, 2, 3])]
    return scn


def gen_C01(r):  # noqa: F811
    if r.random() < 0.08:
        return _cached_chain_scenario(r)
    if r.random() < 0.15:
        return _own_stdout_fault(r, gen_C04(r), 0.06)
    return _own_stdout_fault(r, _gen_C01_base(r), 0.08)


GEN["C09"], GEN["C04"], GEN["C01"] = gen_C09, gen_C04, gen_C01



# ---- cross-profile mixing -------------------------------------------------------------------------
# Every oracle only looks at the operations it understands, so a property can also be checked on the
# histories another property's profile draws (other command sequences, git states, planted files ...).

_MIX = {
    "C01": ["C03", "C04", "C09", "C02", "C18", "C07"],
    "C02": ["C01", "C07", "C18", "C08", "C11", "C13", "C05"],
    "C03": ["C01", "C04", "C09", "C18"],
    "C04": ["C01", "C03", "C09"],
    "C07": ["C02", "C18", "C08", "C11", "C05"],
    "C08": ["C11", "C13", "C02", "C07"],
    "C09": ["C01", "C03", "C04", "C10"],
    "C18": ["C07", "C02", "C01"],
    "C10": ["C07", "C09"],
}


def _mixed(pid, own):
    others = _MIX[pid]

    def gen(r):
        if r.random() < 0.18:
            scn = GEN_BASE[r.choice(others)](r)
            scn.pop("enum", None)
            # manual additions are drawn for one property's oracle (conflicting combine entries, gc
            # look-alikes); the borrowing oracle does not model their effect on a run
            scn["history"] = [o for o in scn["history"] if o["op"] != "plant"]
            for o in scn["history"]:
                o.pop("combine_conflict_hint", None)
            return scn
        return own(r)

    return gen


GEN_BASE = dict(GEN)
for _pid in _MIX:
    GEN[_pid] = _mixed(_pid, GEN_BASE[_pid])
