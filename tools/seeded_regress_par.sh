#!/bin/bash
# Parallel variant of seeded_regress.sh: usage tools/seeded_regress_par.sh [jobs=4] [workers-per-check=4] [id-regex]
# prints CAUGHT / MISSED / NOT-APPLICABLE per seeded change (same rules as seeded_regress.sh)
cd /verif
J=${1:-4}; W=${2:-4}; RX=${3:-.}
one() {
  d=$1; id=$(basename $d)
  obs=$(/venv/bin/python -c "import json;print(json.load(open('$d/meta.json')).get('obsolete',''))")
  if [ -n "$obs" ]; then echo "$id NOT-APPLICABLE (obsolete: $(echo "$obs" | cut -c1-60)...)"; return; fi
  props=$(/venv/bin/python -c "import json;print(' '.join(json.load(open('$d/meta.json'))['check']['caught_by']))")
  out=$(VERIF_WORKERS=$2 NOSHRINK=1 tools/try_patch.sh $d/patch.diff $props 2>&1)
  if echo "$out" | grep -q "PATCH-DOES-NOT-APPLY"; then echo "$id NOT-APPLICABLE (patch no longer applies to HEAD)"; return; fi
  if echo "$out" | grep -q "rc=1 violations=[1-9]"; then echo "$id CAUGHT  $(echo "$out" | grep 'rc=1' | head -1 | cut -c1-140)"; else echo "$id MISSED  $(echo "$out" | head -2 | tr '\n' ' ' | cut -c1-200)"; fi
}
export -f one
ls -d seeded/*/ | grep -E "$RX" | xargs -P $J -I{} bash -c "one {} $W"
