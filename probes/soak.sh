#!/bin/bash
# usage: soak.sh <iterations> <id>
cd /tmp/scratch/soak
hang=0
for i in $(seq 1 $1); do
  timeout 20 /venv/bin/cond run //:all -j 8 >/dev/null 2>&1
  rc=$?
  if [ $rc -eq 124 ]; then hang=$((hang+1)); echo "HANG worker=$2 iter=$i"; fi
done
echo "worker $2 done hangs=$hang"
