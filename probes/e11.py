# Probe: baton-passing of a real worker thread parked inside a sys.monitoring callback,
# driven step by step from the main thread; real pipe, real BufferedReader.read1.
import sys, threading, os, io, select
mon=sys.monitoring; T=4; mon.use_tool_id(T,"t"); E=mon.events
main=threading.main_thread()
class Baton:
    def __init__(s): s.sem=threading.Semaphore(0); s.back=threading.Semaphore(0); s.done=False; s.at=None
    def park(s, where):          # called in worker
        s.at=where; s.back.release(); s.sem.acquire()
    def step(s):                 # called in main: let the worker run to its next park
        s.sem.release(); s.back.acquire()
B=Baton(); events=[]
def on_line(code,line):
    th=threading.current_thread()
    if th is main: events.append(("main",code.co_name,line)); return
    B.park((code.co_name,line))
mon.register_callback(T,E.LINE,on_line)
class Proxy:
    def __init__(s,f): s.f=f
    def read1(s,n):
        while True:
            r,_,_=select.select([s.f],[],[],0)
            if r: return s.f.read1(n)
            B.park(("read1-would-block",))
out=[]
def tee(pipe):
    while True:
        data=pipe.read1(4096)
        if len(data)==0: break
        out.append(data)
def mainwork():
    x=1
    y=2
    return x+y
for f in (tee, mainwork): mon.set_local_events(T,f.__code__,E.LINE)
r,w=os.pipe(); pipe=io.open(r,"rb",-1)
def runner():
    B.sem.acquire()              # start parked
    tee(Proxy(pipe)); B.done=True; B.back.release()
t=threading.Thread(target=runner); t.start()
trace=[]
def step():
    B.step(); trace.append(B.at if not B.done else "done")
step(); step()                       # worker: enters tee loop, reaches read1 -> would block
os.write(w,b"abc"); mainwork(); step(); step(); step()
os.write(w,b"defgh"); step(); step(); step()
os.close(w)
while not B.done: step()
t.join()
print(trace); print(out); print(events)
