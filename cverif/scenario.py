"""Scenario documents: generation (seeded, swarm-style), materialisation on disk, argv rendering.

A scenario is plain JSON (DESIGN.md 4.1) and, together with the seed, the only input of a run.
"""
import json
import os
import pathlib
import random

from . import sim

NAMES = ["a", "b", "c", "d", "e", "f", "g", "h", "k", "m", "t-1", "x_2", "Z9", "run-all"]
PKGS = ["", "p", "p/q", "lib", "exp-1", "subtask", "a_task/x", "archive-tmp"]
STR_VALUES = ["abc", "x.y", "a-b_c", "10k", "path/to", "v1.2.3", "True", "0"]
# identifiers that only differ in case, or in a character that is a wildcard for SQL LIKE / GLOB / regexes
CONFUSABLE_NAMES = ["t-1", "t_1", "T_1", "t11", "a", "A", "x_2", "x-2", "X_2", "a_", "ab"]
ODD_STR_VALUES = ["caf\u00e9", "\u65e5\u672c", "na\u00efve-\u00fc", "\udc80x", "a\udcffb"]   # non-ASCII; lone surrogates = raw non-UTF-8 bytes
# values bash does something with (word splitting, parameter expansion, globbing, tilde); the simulated child does not
# interpret them, the oracle compares the run string itself
SHELL_STR_VALUES = ["two words", "$COND_OUT/result.csv", "$COND_NAME", "~/data", "*.csv", "a  b", "x y z"]


def tid(pkg, name):
    return "//%s:%s" % (pkg, name)


def split_tid(t):
    path, _, name = t[2:].rpartition(":")
    return path, name


# ------------------------------------------------------------------------------------------
# materialisation


def py_lit(v):
    if isinstance(v, float) and v in (float("inf"), float("-inf")):
        return "float('%s')" % v
    if isinstance(v, list):
        return "[%s]" % ", ".join(py_lit(x) for x in v)
    if isinstance(v, dict):
        return "{%s}" % ", ".join("%s: %s" % (py_lit(k), py_lit(x)) for k, x in v.items())
    return repr(v)


def dep_ref(task_id, dep_id, relative):
    if relative and split_tid(task_id)[0] == split_tid(dep_id)[0]:
        return ":" + split_tid(dep_id)[1]
    return dep_id


def _render_xgroup(scn, pkg, gname):
    """run_experiment_group(...) for the instances / combine that carry xg.g == gname in this package"""
    inst = sorted(((d["xg"]["j"], t, d) for t, d in scn["tasks"].items()
                   if d.get("xg") and d["xg"]["g"] == gname and not d["xg"].get("combine") and split_tid(t)[0] == pkg))
    comb = [d for t, d in scn["tasks"].items() if d.get("xg") and d["xg"]["g"] == gname and d["xg"].get("combine")
            and split_tid(t)[0] == pkg][0]
    x = comb["xg"]
    exps = []
    for j, t, d in inst:
        parts = ["name=%r" % split_tid(t)[1]]
        if d.get("args"):
            parts.append("args=%s" % py_lit(d["args"]))
        if d.get("options"):
            parts.append("options=%s" % py_lit(d["options"]))
        if d.get("par"):
            parts.append("parallelizable=True")
        exps.append("ExperimentInstance(%s)" % ", ".join(parts))
    gt = tid(pkg, gname)
    deps = "[%s]" % ", ".join(py_lit(dep_ref(gt, dd, rr)) for dd, rr in zip(x["gdeps"], x["grel"]))
    return "run_experiment_group(name=%r, run=%r, experiments=[%s], chain_experiments=%r, deps=%s)" % (
        gname, "sim @" + gname, ", ".join(exps), bool(x["chain"]), deps)


def add_include(r, scn):
    """two packages share an included .cond file and customise its (mutable) values in place"""
    by_pkg = {}
    for t, d in scn["tasks"].items():
        if d["kind"] in ("exp", "cmd") and not d.get("xg"):
            by_pkg.setdefault(split_tid(t)[0], []).append(t)
    if len(by_pkg) < 2:
        return False
    base_args = [gen_value(r) for _ in range(r.randint(0, 2))]
    base_opts = {k: gen_value(r) for k in r.sample(["threads", "mode"], r.randint(0, 2))}
    scn["include"] = {"file": "common.cond", "base_args": base_args, "base_options": base_opts}
    for pkg in r.sample(sorted(by_pkg), 2):
        t = r.choice(by_pkg[pkg])
        d = scn["tasks"][t]
        extra_a = [gen_value(r) for _ in range(r.randint(1, 2))]
        extra_o = {k: gen_value(r) for k in r.sample(["mem", "alpha", "z"], r.randint(1, 2))}
        d["args"] = list(base_args) + extra_a
        d["options"] = dict(base_opts, **extra_o)
        d["inc"] = {"args_extra": extra_a, "opts_extra": extra_o,
                    "deps": bool(d["deps"]) and all(split_tid(x)[0] == pkg for x in d["deps"])}
        if d["inc"]["deps"]:
            d["rel"] = [True] * len(d["deps"])
    return True


def add_include_reldeps(r, scn):
    """an included .cond file defines a list with a *relative* dependency (REL_DEPS = [":prep"]); two packages
    each define their own `prep` and hand that very list to a task (deps=REL_DEPS): each task depends on the
    `prep` of its own package"""
    if scn.get("include"):
        return False
    by_pkg = {}
    for t, d in scn["tasks"].items():
        if d["kind"] in ("exp", "cmd") and not d.get("xg") and not d["deps"]:
            by_pkg.setdefault(split_tid(t)[0], []).append(t)
    if len(by_pkg) < 2:
        return False
    name = "prep"
    scn["include"] = {"file": "common.cond", "base_args": [], "base_options": {}, "rel_deps": name}
    new = {}
    for pkg in r.sample(sorted(by_pkg), 2):
        pt = tid(pkg, name)
        new[pt] = {"kind": r.choice(["cmd", "cmd", "exp"]), "deps": [], "rel": [], "par": r.random() < 0.5}
        t = r.choice(by_pkg[pkg])
        d = scn["tasks"][t]
        d["deps"], d["rel"], d["increl"] = [pt], [True], True
        # somebody else in the package needs its prep too (listed literally)
        others = [u for u, du in scn["tasks"].items() if split_tid(u)[0] == pkg and u != t and not du.get("xg")
                  and du["kind"] in ("cmd", "group") and pt not in du["deps"]]
        if others and r.random() < 0.6:
            du = scn["tasks"][r.choice(others)]
            du["deps"] = du["deps"] + [pt]
            du["rel"] = list(du.get("rel", [True] * (len(du["deps"]) - 1))) + [r.random() < 0.5]
    # the new tasks go first (definition order inside a COND file does not matter to Conductor)
    tasks = dict(new)
    tasks.update(scn["tasks"])
    scn["tasks"].clear()
    scn["tasks"].update(tasks)
    return True


def render_cond(scn, pkg):
    lines = []
    done_groups = set()
    if scn.get("cond_prelude") == pkg:
        # ordinary Python at the top of a COND file: the usual idiom against "BrokenPipeError" noise
        lines += ["import signal", "signal.signal(signal.SIGPIPE, signal.SIG_DFL)"]
    if any(d.get("increl") and split_tid(t)[0] == pkg for t, d in scn["tasks"].items()):
        lines.append("include(%r)" % ("//" + scn["include"]["file"]))
    inc_task = [(t, d) for t, d in scn["tasks"].items() if d.get("inc") and split_tid(t)[0] == pkg]
    if inc_task:
        t0, d0 = inc_task[0]
        lines.append("include(%r)" % ("//" + scn["include"]["file"]))
        lines.append("BASE_ARGS += %s" % py_lit(d0["inc"]["args_extra"]))
        lines.append("BASE_OPTIONS.update(%s)" % py_lit(d0["inc"]["opts_extra"]))
        if d0["inc"]["deps"]:
            lines.append("SHARED_DEPS += %s" % py_lit([":" + split_tid(x)[1] for x in d0["deps"]]))
    wrapped = scn.get("wrap_pkg") == pkg
    if wrapped:
        lines.append("_orig_exp, _orig_cmd = run_experiment, run_command")
        extra = "    kw.setdefault('options', {'wrapped': 1})\n" if scn.get("wrap_opts") else ""
        lines.append("def run_experiment(**kw):\n    kw.setdefault('parallelizable', True)\n%s    return _orig_exp(**kw)" % extra)
        lines.append("def run_command(**kw):\n    kw.setdefault('parallelizable', True)\n%s    return _orig_cmd(**kw)" % extra)
    for t, d in scn["tasks"].items():
        p, name = split_tid(t)
        if p != pkg:
            continue
        if d.get("inc"):
            fn = "run_experiment" if d["kind"] == "exp" else "run_command"
            parts = ["name=%r" % name, "run=%r" % ("sim " + t)]
            if d.get("par"):
                parts.append("parallelizable=True")
            parts += ["args=BASE_ARGS", "options=BASE_OPTIONS"]
            if d["inc"]["deps"]:
                parts.append("deps=SHARED_DEPS")
            elif d["deps"]:
                rel = d.get("rel", [True] * len(d["deps"]))
                parts.append("deps=[%s]" % ", ".join(py_lit(dep_ref(t, x, r_)) for x, r_ in zip(d["deps"], rel)))
            lines.append("%s(%s)" % (fn, ", ".join(parts)))
            continue
        if d.get("xg"):
            g = d["xg"]["g"]
            if g not in done_groups:
                done_groups.add(g)
                lines.append(_render_xgroup(scn, pkg, g))
            continue
        rel = d.get("rel", [True] * len(d["deps"]))
        deps = "[%s]" % ", ".join(py_lit(dep_ref(t, x, r)) for x, r in zip(d["deps"], rel))
        k = d["kind"]
        if k in ("exp", "cmd"):
            fn = "run_experiment" if k == "exp" else "run_command"
            parts = ["name=%r" % name, "run=%r" % ("sim " + t)]
            if d.get("par") and not wrapped:
                parts.append("parallelizable=True")
            if d.get("args"):
                parts.append("args=%s" % py_lit(d["args"]))
            if d.get("options") and not (wrapped and d.get("wrapdef")):
                parts.append("options=%s" % py_lit(d["options"]))
            if d.get("increl"):
                parts.append("deps=REL_DEPS")
            elif d["deps"]:
                parts.append("deps=%s" % deps)
            lines.append("%s(%s)" % (fn, ", ".join(parts)))
        elif k == "group":
            lines.append("group(name=%r, deps=%s)" % (name, deps))
        elif k == "combine":
            lines.append("combine(name=%r, deps=%s)" % (name, deps))
        else:
            raise ValueError(k)
    return "\n".join(lines) + "\n"


def materialize(scn, root):
    root = pathlib.Path(root)
    root.mkdir(parents=True, exist_ok=True)
    cfg = "disable_git = true\n" if scn.get("disable_git") else ""
    (root / "cond_config.toml").write_text(cfg)
    pkgs = set(scn.get("pkgs", []))
    for t in scn["tasks"]:
        pkgs.add(split_tid(t)[0])
    for pkg in sorted(pkgs):
        (root / pkg).mkdir(parents=True, exist_ok=True)
        if any(split_tid(t)[0] == pkg for t in scn["tasks"]):
            (root / pkg / "COND").write_text(render_cond(scn, pkg))
    for extra in scn.get("dirs", []):
        (root / extra).mkdir(parents=True, exist_ok=True)
    if scn.get("include"):
        inc = scn["include"]
        (root / inc["file"]).write_text("BASE_ARGS = %s\nBASE_OPTIONS = %s\nSHARED_DEPS = []\n"
                                        % (py_lit(inc["base_args"]), py_lit(inc["base_options"]))
                                        + ("REL_DEPS = [%r]\n" % (":" + inc["rel_deps"]) if inc.get("rel_deps") else ""))
    if scn.get("condout_symlink") == "dangling-relative":
        # cond-out is a link with a relative target that is gone (scratch space was purged)
        if not os.path.lexists(root / "cond-out"):
            os.symlink("../scratch-gone/proj-out", str(root / "cond-out"))
    elif scn.get("condout_symlink"):
        # results kept on another volume: cond-out is a symbolic link
        store = root.parent / "storage"
        store.mkdir(exist_ok=True)
        if not os.path.lexists(root / "cond-out"):
            os.symlink(str(store), str(root / "cond-out"))
    if scn.get("enclosing"):
        # the project lives inside another Conductor project (vendored checkout): the nearest
        # cond_config.toml is the one that counts
        outer = root.parent
        if not (outer / "cond_config.toml").exists():
            (outer / "cond_config.toml").write_text("disable_git = true\n")
            for pkg in sorted(pkgs):
                (outer / pkg).mkdir(parents=True, exist_ok=True)
                if any(split_tid(t)[0] == pkg for t in scn["tasks"]):
                    (outer / pkg / "COND").write_text(render_cond(scn, pkg))


def op_argv(op, sim_obj=None):
    k = op["op"]
    f = op.get("flags", {})
    if k == "run":
        a = (["--debug"] if f.get("debug") else []) + ["run", op["target"]]
        if f.get("again"):
            a.append("--again")
        if f.get("at_least") is not None:
            a += ["--at-least", f["at_least"]]
        if f.get("this_commit"):
            a.append("--this-commit")
        if f.get("stop_early"):
            a.append("--stop-early")
        if f.get("check"):
            a.append("--check")
        j = f.get("jobs")
        if j == "auto":
            a.append("-j")
        elif j is not None:
            a += ["-j", str(j)]
        return a
    if k == "where":
        a = ["where", op["target"]]
        if f.get("project"):
            a.append("-p")
        if f.get("nonexist"):
            a.append("-f")
        return a
    if k == "gc":
        a = ["gc"]
        if f.get("dry"):
            a.append("-n")
        if f.get("verbose"):
            a.append("-v")
        return a
    if k == "clean":
        return ["clean", "-f"]
    if k == "archive":
        a = ["archive"]
        if op.get("target"):
            a.append(op["target"])
        if f.get("latest"):
            a.append("--latest")
        if op.get("out_rel"):
            a += ["-o", op["out_rel"]]          # relative: meant to be resolved against the working directory
        elif op.get("out"):
            a += ["-o", op["out_path"]]
        return a
    if k == "restore":
        return ["restore", op["archive_path"]]
    raise ValueError(k)


# ------------------------------------------------------------------------------------------
# generation


def gen_value(r, odd=False):
    if odd and r.random() < 0.2:
        return r.choice(ODD_STR_VALUES)
    c = r.random()
    if c < 0.3:
        return r.choice([0, 1, 7, 42, -3, 100000])
    if c < 0.5:
        return r.choice([0.5, 1.25, -2.0, 1e-3, 3.0, float("inf")])
    if c < 0.7:
        return r.choice([True, False])
    return r.choice(STR_VALUES)


def gen_graph(r, n, kinds_w, pkgs, p_par=0.5, p_edge=0.45, shape=None):
    """tasks in definition order; deps only point to earlier tasks (acyclic)."""
    tasks = {}
    ids = []
    used = set()
    # (decided from the generator state without drawing, so that the other scenarios stay as they were)
    st = r.getstate()[1]
    pool = CONFUSABLE_NAMES if (st[0] ^ st[-1] ^ st[7]) % 9 == 0 else NAMES
    shape = shape or r.choice(["random", "random", "diamond", "chain", "fan", "layers"])
    for i in range(n):
        pkg = r.choice(pkgs)
        for _ in range(50):
            name = r.choice(pool)
            if (pkg, name) not in used:
                break
        else:
            name = "n%d" % i
        used.add((pkg, name))
        t = tid(pkg, name)
        kind = r.choices(list(kinds_w), weights=list(kinds_w.values()))[0]
        if i == 0 and kind in ("group", "combine"):
            kind = "exp"
        if kind == "xgroup":
            # run_experiment_group: m experiment instances (optionally chained) + a combine named after the group
            m = r.randint(2, 4)
            free = [nm for nm in NAMES + ["i1", "i2", "i3", "i4", "grp"] if (pkg, nm) not in used and nm != name]
            if len(free) < m:
                kind = "exp"
            else:
                inames = r.sample(free, m)
                gdeps = [c for c in ids if r.random() < 0.3][:2]
                grel = [r.random() < 0.7 for _ in gdeps]
                chain = r.random() < 0.6
                prev = None
                its = []
                for j, nm in enumerate(inames):
                    used.add((pkg, nm))
                    it = tid(pkg, nm)
                    dd = list(gdeps) + ([prev] if chain and prev else [])
                    d = {"kind": "exp", "deps": dd, "rel": list(grel) + ([True] if chain and prev else []),
                         "par": r.random() < p_par, "xg": {"g": name, "j": j}}
                    if r.random() < 0.4:
                        d["args"] = [gen_value(r) for _ in range(r.randint(1, 2))]
                    if r.random() < 0.4:
                        d["options"] = {k: gen_value(r) for k in r.sample(["threads", "mem", "mode"], r.randint(1, 2))}
                    tasks[it] = d
                    ids.append(it)
                    its.append(it)
                    prev = it
                tasks[t] = {"kind": "combine", "deps": list(its), "rel": [True] * m,
                            "xg": {"g": name, "combine": True, "gdeps": gdeps, "grel": grel, "chain": chain}}
                ids.append(t)
                continue
        cand = list(ids)
        deps = []
        if cand:
            if shape == "chain":
                deps = [cand[-1]]
                if r.random() < 0.3 and len(cand) > 1:
                    deps.append(r.choice(cand[:-1]))
            elif shape == "fan":
                deps = [c for c in cand if r.random() < (0.8 if i == n - 1 else 0.15)]
            elif shape == "diamond":
                deps = [c for c in cand[-3:] if r.random() < 0.7]
                if r.random() < 0.4:
                    deps.append(cand[0])
            elif shape == "layers":
                deps = [c for c in cand[-4:] if r.random() < 0.5]
            else:
                deps = [c for c in cand if r.random() < p_edge]
        deps = list(dict.fromkeys(deps))
        if kind in ("group", "combine") and not deps and cand:
            deps = [r.choice(cand)]
        if kind == "combine":
            seen_names = set()
            dd = []
            for d in deps:
                nm = split_tid(d)[1]
                if nm not in seen_names:
                    seen_names.add(nm)
                    dd.append(d)
            deps = dd
        r.shuffle(deps)
        d = {"kind": kind, "deps": deps, "rel": [r.random() < 0.7 for _ in deps]}
        if kind in ("exp", "cmd"):
            d["par"] = r.random() < p_par
            if r.random() < 0.35:
                d["args"] = [gen_value(r) for _ in range(r.randint(1, 3))]
            if r.random() < 0.35:
                keys = r.sample(["threads", "mem", "mode", "fast", "alpha", "z"], r.randint(1, 3))
                d["options"] = {k: gen_value(r) for k in keys}
        tasks[t] = d
        ids.append(t)
    return tasks


def closure(tasks, t):
    seen = set()
    stack = [t]
    while stack:
        x = stack.pop()
        if x in seen:
            continue
        seen.add(x)
        stack.extend(tasks[x]["deps"])
    return seen


def pick_target(r, tasks, bias_top=0.7):
    ids = list(tasks)
    if r.random() < bias_top:
        best = max(ids, key=lambda t: (len(closure(tasks, t)), ids.index(t)))
        return best
    return r.choice(ids)


def simple_script(r, task, kind, fail=None, files=True, out=False):
    steps = []
    if files and r.random() < 0.7:
        for i in range(r.randint(1, 2)):
            steps.append(["file", r.choice(["res.csv", "data/out.bin", "m.txt", "d/e/f.json", "old.task.3/copy.txt"]),
                          {"k": "bin", "n": r.choice([0, 5, 100, 3000]), "seed": r.randrange(1 << 30)}])
    if out:
        for i in range(r.randint(0, 3)):
            steps.append([r.choice(["out", "err"]),
                          {"k": r.choice(["txt", "bin"]), "n": r.choice([1, 10, 200, 5000]),
                           "seed": r.randrange(1 << 30)}])
    if r.random() < 0.3:
        steps.append(["adv", r.choice([0.2, 0.9, 1.0, 2.5, 61.0])])
    r.shuffle(steps)
    sc = {"steps": steps, "end": ["exit", 0]}
    if fail is not None:
        sc.update(fail)
    if out and r.random() < 0.12 and not sc.get("launch"):
        st_ = r.choice(["out", "err"])
        sc["bg"] = {"stream": st_, "steps": [[st_, {"k": "txt", "n": r.choice([5, 300]), "seed": r.randrange(1 << 30)}]
                                              for _ in range(r.randint(1, 2))]}
    return sc


FAIL_KINDS = [
    {"end": ["exit", 1]}, {"end": ["exit", 2]}, {"end": ["exit", 255]}, {"end": ["exit", 127]},
    {"end": ["sig", 9]}, {"end": ["sig", 11]}, {"end": ["sig", 15]},
    {"launch": "eagain"}, {"launch": "enomem"}, {"launch": "exec"}, {"launch": "chdir"}, {"launch": "mkdir"},
]


def gen_knobs(r, mon=None, p_async_choices=(0.0, 1e-3, 1e-2, 5e-2)):
    return {
        "mon": (r.random() < 0.8) if mon is None else mon,
        "p_async": r.choice(p_async_choices),
        "p_burst": r.choice([0.0, 0.0, 0.3, 0.7]),
        "bias": r.choice(["uniform", "uniform", "fifo", "lifo"]),
        "cpu_count": r.choice([1, 2, 3, 4, 8]),
    }
