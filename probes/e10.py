import sys, threading
mon=sys.monitoring; T=4; mon.use_tool_id(T,"t"); E=mon.events
log=[]
depth=[0]
def handler():
    x=1
    y=len("ab")
    return x+y
def on_line(code, line):
    log.append((threading.current_thread().name, code.co_name, line, depth[0]))
    if code.co_name=="work" and depth[0]==0 and len([l for l in log if l[1]=="work"])==2:
        depth[0]+=1
        handler()          # monitored function called from inside a callback
        depth[0]-=1
mon.register_callback(T,E.LINE,on_line)
def work():
    a=1
    b=2
    return a+b
for f in (work, handler): mon.set_local_events(T,f.__code__,E.LINE)
work()
t=threading.Thread(target=work,name="worker"); t.start(); t.join()
for l in log: print(l)
