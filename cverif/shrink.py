"""Minimisation of a failing (scenario, schedule).  Every candidate is re-executed against the real
system; a step is kept only if the same violation signature persists."""
import copy
import json

from . import sim


def _sig_persists(prop, scn, seed, plans, signature):
    from .main import run_scenario

    try:
        res = run_scenario(prop, scn, seed, plans)
    except BaseException:  # noqa: a candidate that breaks the harness is simply not kept
        return None
    for v in res["violations"]:
        if v["signature"] == signature:
            return res, v
    return None


def _drop_task(scn, t):
    if scn["tasks"][t].get("xg") or scn["tasks"][t].get("inc") or scn["tasks"][t].get("increl"):
        return None       # rendered together with other tasks / with the shared include
    s = copy.deepcopy(scn)
    for op in s["history"]:
        if op.get("target") == t:
            return None
    del s["tasks"][t]
    for d in s["tasks"].values():
        if t in d["deps"]:
            i = d["deps"].index(t)
            d["deps"].pop(i)
            if "rel" in d and i < len(d["rel"]):
                d["rel"].pop(i)
        if d["kind"] in ("group", "combine") and not d["deps"]:
            pass
    for op in s["history"]:
        if "scripts" in op:
            op["scripts"].pop(t, None)
    return s


def minimise(prop, doc, time_budget=60):
    from .main import warmup

    warmup()
    sig = doc["signature"]
    seed = doc["seed"]
    scn = copy.deepcopy(doc["scenario"])
    for i, op in enumerate(scn["history"]):
        op.setdefault("uid", str(i))
    t_end = sim.REAL.time() + time_budget
    steps = 0

    def left():
        return sim.REAL.time() < t_end

    # 0. does it reproduce at all (PRNG mode)?
    base = _sig_persists(prop, scn, seed, None, sig)
    if base is None:
        doc["shrink"] = "not reproducible in-process; left as found"
        return doc
    plans = None
    # 1. switch to an explicit schedule if that still fails
    rec = base[0].get("plans")
    if rec is None:
        from .main import run_scenario

        r0 = run_scenario(prop, scn, seed, None, want_sample=True)
        rec = r0.get("plans")
    if rec is not None and _sig_persists(prop, scn, seed, rec, sig) is not None:
        plans = rec

    def attempt(cand_scn, cand_plans):
        nonlocal scn, plans, steps
        if cand_scn is None:
            return False
        r = _sig_persists(prop, cand_scn, seed, cand_plans, sig)
        if r is not None:
            scn, plans = cand_scn, cand_plans
            steps += 1
            return True
        return False

    changed = True
    rounds = 0
    while changed and left() and rounds < 6:
        changed = False
        rounds += 1
        # 2. drop operations (last first)
        i = len(scn["history"]) - 1
        while i >= 0 and left():
            if len(scn["history"]) > 1:
                c = copy.deepcopy(scn)
                c["history"].pop(i)
                en = c.get("enum")
                if en is not None:
                    if i == en["step"]:
                        c = None
                    elif i < en["step"]:
                        en["step"] -= 1
                if attempt(c, plans):
                    changed = True
            i -= 1
        # 3. drop tasks
        for t in list(scn["tasks"])[::-1]:
            if not left():
                break
            if t in scn["tasks"] and len(scn["tasks"]) > 1:
                if attempt(_drop_task(scn, t), plans):
                    changed = True
        # 3b. drop edges
        for t in list(scn["tasks"]):
            if scn["tasks"][t].get("xg") or scn["tasks"][t].get("inc") or scn["tasks"][t].get("increl"):
                continue
            for d in list(scn["tasks"][t]["deps"]):
                if not left():
                    break
                c = copy.deepcopy(scn)
                i = c["tasks"][t]["deps"].index(d)
                c["tasks"][t]["deps"].pop(i)
                if "rel" in c["tasks"][t] and i < len(c["tasks"][t]["rel"]):
                    c["tasks"][t]["rel"].pop(i)
                if c["tasks"][t]["kind"] in ("group", "combine") and not c["tasks"][t]["deps"]:
                    continue
                if attempt(c, plans):
                    changed = True
        # 4. simplify tasks, ops
        for t in list(scn["tasks"]):
            d = scn["tasks"][t]
            for key in ("args", "options"):
                if d.get(key) and left() and not d.get("inc"):
                    c = copy.deepcopy(scn)
                    c["tasks"][t].pop(key)
                    if attempt(c, plans):
                        changed = True
            if d["kind"] in ("exp", "group", "combine") and left() and not d.get("xg"):
                c = copy.deepcopy(scn)
                c["tasks"][t]["kind"] = "cmd"
                c["tasks"][t].setdefault("par", False)
                if attempt(c, plans):
                    changed = True
            if scn["tasks"][t].get("par") and left():
                c = copy.deepcopy(scn)
                c["tasks"][t]["par"] = False
                if attempt(c, plans):
                    changed = True
        for i in range(len(scn["history"])):
            op = scn["history"][i]
            for t in list(op.get("scripts", {})):
                if not left():
                    break
                c = copy.deepcopy(scn)
                c["history"][i]["scripts"].pop(t)
                if attempt(c, plans):
                    changed = True
            for key in ("stray", "env", "signal", "kill"):
                if key in op and left():
                    c = copy.deepcopy(scn)
                    c["history"][i].pop(key)
                    if attempt(c, plans):
                        changed = True
            for fk in list(op.get("flags", {})):
                if not left():
                    break
                c = copy.deepcopy(scn)
                c["history"][i]["flags"].pop(fk)
                if attempt(c, plans):
                    changed = True
            j = scn["history"][i].get("flags", {}).get("jobs")
            if isinstance(j, int) and j > 2 and left():
                c = copy.deepcopy(scn)
                c["history"][i]["flags"]["jobs"] = 2
                if attempt(c, plans):
                    changed = True
            if scn["history"][i].get("gap") and left():
                c = copy.deepcopy(scn)
                c["history"][i]["gap"] = 0.0
                if attempt(c, plans):
                    changed = True
            if scn["history"][i].get("cwd") and left():
                c = copy.deepcopy(scn)
                c["history"][i]["cwd"] = ""
                if attempt(c, plans):
                    changed = True
        # 5. schedule: empty the asynchronous decisions, then drop them one by one
        if plans is not None:
            for uid in list(plans):
                a = plans[uid].get("async", {})
                if a and left():
                    cp = copy.deepcopy(plans)
                    cp[uid]["async"] = {}
                    if attempt(scn, cp):
                        changed = True
                        continue
                    keys = sorted(a, key=int)
                    for k in keys:
                        if not left():
                            break
                        cp = copy.deepcopy(plans)
                        cp[uid]["async"].pop(k, None)
                        if attempt(scn, cp):
                            changed = True
                b = plans[uid].get("block", [])
                if b and left():
                    cp = copy.deepcopy(plans)
                    cp[uid]["block"] = []
                    if attempt(scn, cp):
                        changed = True
            if scn.get("knobs", {}).get("mon") and left():
                c = copy.deepcopy(scn)
                c["knobs"]["mon"] = False
                if attempt(c, plans):
                    changed = True
    final = _sig_persists(prop, scn, seed, plans, sig)
    out = dict(doc)
    if final is not None:
        out["scenario"] = scn
        out["plans"] = plans
        out["violation"] = final[1]
        out["event_digest"] = final[0]["full"]
        out["shrink"] = "%d shrinking steps kept; %d tasks, %d operations" % (
            steps, len(scn["tasks"]), len(scn["history"]))
    return out
