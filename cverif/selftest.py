"""Obligations of the machinery itself (DESIGN.md section 6): determinism across interpreters,
stub fidelity (fake git vs the real binary, fake kernel vs real bash children), real-process soak."""
import hashlib
import json
import os
import pathlib
import random
import shutil
import subprocess
import sys
import tempfile

from . import sim, runner
from . import scenario as S

HERE = pathlib.Path(__file__).resolve().parent


# ------------------------------------------------------------------------------------------
# determinism: same seeds in fresh interpreters under another PYTHONHASHSEED and another split


def determinism_phase(prop, base_seed, n, main_results, work):
    """returns (compared, mismatches[list of str])"""
    outs = []
    procs = []
    for tag, hs, of in (("a", "12345", 1), ("b", "1", 2)):
        out = pathlib.Path(work) / ("det-%s.jsonl" % tag)
        env = dict(os.environ, PYTHONHASHSEED=hs)
        cmd = [sys.executable, str(HERE / "main.py"), prop, "--worker", "0", "--of", str(of), "--count", str(n),
               "--budget", "600", "--seed", str(base_seed), "--out", str(out), "--twice", "0"]
        procs.append((out, subprocess.Popen(cmd, env=env, stdout=subprocess.DEVNULL, stderr=subprocess.DEVNULL)))
    digests = {}
    for i, (out, p) in enumerate(procs):
        try:
            p.wait(timeout=900)
        except subprocess.TimeoutExpired:
            p.kill()
        d = {}
        if out.exists():
            for line in open(out):
                try:
                    j = json.loads(line)
                except ValueError:
                    continue
                if "i" in j and "full" in j:
                    d[j["i"]] = j["full"]
        outs.append(d)
    ref = {d["i"]: d["full"] for d in main_results if "full" in d}
    mism = []
    compared = 0
    suspects = {}
    for i in sorted(set(outs[0]) | set(outs[1])):
        vals = {k: v for k, v in (("hashseed12345", outs[0].get(i)), ("hashseed1-split2", outs[1].get(i)),
                                  ("main", ref.get(i))) if v is not None}
        if len(vals) >= 2:
            compared += 1
            if len(set(vals.values())) > 1:
                suspects[i] = vals
    TRANSIENT.clear()
    if suspects:
        # a digest that differs is recomputed twice more, each time in a fresh interpreter of its own: a
        # reproducible difference (the seed gives two different executions) is nondeterminism of the simulator; a
        # difference that does not come back (seen once in ~600 comparisons under heavy machine load, never
        # reproduced) is reported in the evidence as transient, not as a harness error
        again = []
        for tag, hs in (("c", "0"), ("d", "777")):
            out = pathlib.Path(work) / ("det-%s.jsonl" % tag)
            env = dict(os.environ, PYTHONHASHSEED=hs)
            cmd = [sys.executable, str(HERE / "main.py"), prop, "--worker", "0", "--of", "1", "--count", str(max(suspects) + 1),
                   "--budget", "600", "--seed", str(base_seed), "--out", str(out), "--twice", "0",
                   "--only", ",".join(map(str, sorted(suspects)))]
            p = subprocess.Popen(cmd, env=env, stdout=subprocess.DEVNULL, stderr=subprocess.DEVNULL)
            try:
                p.wait(timeout=900)
            except subprocess.TimeoutExpired:
                p.kill()
            d = {}
            if out.exists():
                for line in open(out):
                    try:
                        j = json.loads(line)
                    except ValueError:
                        continue
                    if "i" in j and "full" in j:
                        d[j["i"]] = j["full"]
            again.append(d)
        for i, vals in sorted(suspects.items()):
            redo = [again[0].get(i), again[1].get(i)]
            majority = max(set(vals.values()), key=list(vals.values()).count)
            if redo[0] is not None and redo[0] == redo[1] and redo[0] == majority:
                TRANSIENT.append("seed index %d: %s, recomputed twice: %s" % (i, vals, redo[0]))
            else:
                mism.append("seed index %d: %s (recomputed: %s)" % (i, vals, redo))
    return compared, mism


TRANSIENT = []


# ------------------------------------------------------------------------------------------
# fake git vs the real binary


def _git(repo, *a, check=True, env_extra=None):
    env = dict(os.environ, GIT_AUTHOR_NAME="t", GIT_AUTHOR_EMAIL="t@t", GIT_COMMITTER_NAME="t",
               GIT_COMMITTER_EMAIL="t@t", GIT_AUTHOR_DATE="2020-01-01T00:00:00Z",
               GIT_COMMITTER_DATE="2020-01-01T00:00:00Z", GIT_CONFIG_NOSYSTEM="1", HOME=str(repo))
    if env_extra:
        env.update(env_extra)
    return sim.REAL.subprocess_run(["git", *a], cwd=repo, capture_output=True, text=True, env=env, check=False)


def git_cross_validate(n_dags, seed):
    """builds generated commit DAGs with the real git and compares every query conductor.utils.git
    issues (through the real wrapper class) between the fake and the real binary"""
    from . import profiles

    sim.install()
    import conductor.utils.git as cgit
    r = random.Random(seed)
    queries = 0
    mism = []
    for k in range(n_dags):
        # reuse the C05 history generator for a realistic DAG, then replay its git ops on both sides
        tasks = S.gen_graph(r, 2, {"exp": 1}, [""])
        ops = [o for o in profiles._git_history(r, tasks, r.randint(6, 14)) if o["op"] == "git"]
        if not ops or ops[0]["action"] != "init":
            continue
        work = pathlib.Path(tempfile.mkdtemp(prefix="cverif-git-", dir=runner.SHM))
        try:
            repo = work / "r"
            repo.mkdir()
            _git(repo, "init", "-q", "-b", "main")
            (repo / "f").write_text("x")
            _git(repo, "add", "f")
            tree = _git(repo, "write-tree").stdout.strip()
            world = sim.Sim(work, {"git": {"mode": "none"}, "knobs": {}}, 0)
            real_hash = {}
            for op in ops:
                runner._git_op(world, op)
                g = world.git_state
                a = op["action"]
                if a == "commit":
                    parents = []
                    for p in g["commits"][op["name"]]:
                        parents += ["-p", real_hash[p]]
                    h = _git(repo, "commit-tree", tree, *parents, "-m", op["name"]).stdout.strip()
                    real_hash[op["name"]] = h
                    if g.get("cur_branch"):
                        _git(repo, "update-ref", "refs/heads/" + g["cur_branch"], h)
                        _git(repo, "symbolic-ref", "HEAD", "refs/heads/" + g["cur_branch"])
                    else:
                        _git(repo, "update-ref", "--no-deref", "HEAD", h)
                elif a == "tag":
                    t_ = g.get("tags", {}).get(op["name"])
                    if t_ is not None:
                        if t_["annotated"]:
                            _git(repo, "-c", "user.name=t", "-c", "user.email=t@example.org", "tag", "-a", "-m", "release",
                                 op["name"], real_hash[t_["commit"]])
                        else:
                            _git(repo, "tag", op["name"], real_hash[t_["commit"]])
                elif a == "checkout":
                    if g.get("cur_branch"):
                        if g["head"]:
                            _git(repo, "update-ref", "refs/heads/" + g["cur_branch"], real_hash[g["head"]])
                        _git(repo, "symbolic-ref", "HEAD", "refs/heads/" + g["cur_branch"])
                    elif g["head"]:
                        _git(repo, "update-ref", "--no-deref", "HEAD", real_hash[g["head"]])
                # every commit has the same tree, so the work tree is dirty exactly when f was edited
                (repo / "f").write_text("dirty" if g.get("dirty") else "x")
                _git(repo, "reset", "-q")                      # nothing staged ...
                if g.get("dirty") == "staged":
                    _git(repo, "add", "f")                    # ... unless the scenario says so
                _git(repo, "update-index", "-q", "--refresh")
                # compare after every step: let the real wrapper class issue its queries against the fake
                # binary, then put every argv it used to the real binary as well (hashes translated)
                names = sorted(g.get("commits", {}))
                f2r = {sim.commit_hash(n): real_hash[n] for n in names}
                for tn_, t_ in g.get("tags", {}).items():
                    if t_["annotated"]:
                        f2r[sim.tag_object_hash(tn_)] = _git(repo, "rev-parse", tn_).stdout.strip()
                r2f = {v: k for k, v in f2r.items()}
                world.git.log = []
                global_cur = sim.CUR
                try:
                    sim.CUR = world
                    world.in_cb = 1          # no scheduling inside this comparison
                    fake = cgit.Git(work)
                    fake.is_used()
                    fake.current_commit()
                    for x in names:
                        for y in names:
                            if fake.is_ancestor(sim.commit_hash(x), sim.commit_hash(y)):
                                fake.get_distance(sim.commit_hash(x), sim.commit_hash(y))
                    for sym in list(g.get("branches", {})) + list(g.get("tags", {})) + ["HEAD", "nosuch", "deadbeef"]:
                        h_ = fake.rev_parse(sym)
                        if h_ and g.get("head"):
                            # what --at-least does with the symbol it was given
                            fake.is_ancestor(sim.commit_hash(g["head"]), h_)
                    for tn_ in g.get("tags", {}):
                        world.git.run(["git", "rev-parse", tn_ + "^{commit}"], capture_output=True, text=True)
                        world.git.run(["git", "rev-parse", "--verify", tn_ + "^{commit}"], capture_output=True, text=True)
                    if g.get("head"):
                        for argv in (["git", "diff", "--quiet"], ["git", "diff", "--cached", "--quiet"],
                                     ["git", "diff", "--quiet", "HEAD"], ["git", "diff-index", "--quiet", "--cached", "HEAD"],
                                     ["git", "rev-list", "--count", "--first-parent", "HEAD"]):
                            world.git.run(argv, capture_output=True, text=True)
                finally:
                    sim.CUR = global_cur
                log, world.git.log = world.git.log, None

                def tr(tok, table):
                    out = tok
                    for a_, b_ in table.items():
                        out = out.replace(a_, b_)
                    return out

                for argv, frc, fout in log:
                    rargv = [tr(t_, f2r) for t_ in argv[1:]]
                    rr = _git(repo, *rargv)
                    queries += 1
                    rout = tr(rr.stdout, r2f)
                    if frc != rr.returncode or (frc == 0 and fout.strip() != rout.strip() and argv[1] != "rev-parse" or
                                                (frc == 0 and argv[1] == "rev-parse" and argv[2] != "--git-dir"
                                                 and fout.strip() != rout.strip())):
                        mism.append("%r after %r: fake (%r, %r) real (%r, %r)" % (argv[1:], op, frc, fout.strip()[:40],
                                                                                 rr.returncode, rout.strip()[:40]))
        finally:
            shutil.rmtree(work, ignore_errors=True)
    return queries, mism[:10]


# ------------------------------------------------------------------------------------------
# real-process corroboration: the real cond executable with real bash children


def _real_cond(args, cwd, timeout=60):
    env = dict(os.environ)
    src = os.environ.get("CVERIF_SRC")
    if src:
        env["PYTHONPATH"] = src
    return sim.REAL.subprocess_run([sys.executable, "-m", "conductor", *args], cwd=cwd, capture_output=True,
                                   timeout=timeout, env=env)


def real_soak(runs_per_proc=6, procs=16, tasks=60, jobs=8, timeout=20, sequential=False):
    """parallel workload: cond run -j 8 on many trivial tasks (the reaper race of D7 needs many Popen
    calls); sequential workload: two short teed experiments (the lost wake-up of D13 needs a child that
    exits right when cond starts waiting).  Several cond processes at once - load widens both windows.
    Returns (runs, hangs, failures)."""
    base = pathlib.Path(tempfile.mkdtemp(prefix="cverif-soak-", dir=runner.SHM))
    try:
        script = base / "loop.sh"
        src = os.environ.get("CVERIF_SRC", "")
        args = "run //:b --again" if sequential else "run //:all -j %d" % jobs
        script.write_text("#!/bin/bash\ncd $1\nh=0; f=0\nfor i in $(seq 1 %d); do\n  %s timeout %d %s -m conductor %s >/dev/null 2>&1\n"
                          "  rc=$?\n  if [ $rc -eq 124 ]; then h=$((h+1)); elif [ $rc -ne 0 ]; then f=$((f+1)); fi\ndone\necho $h $f\n"
                          % (runs_per_proc, ("PYTHONPATH=%s" % src) if src else "", timeout, sys.executable, args))
        ps = []
        for k in range(procs):
            d = base / ("p%d" % k)
            d.mkdir()
            (d / "cond_config.toml").write_text("")
            with open(d / "COND", "w") as f:
                if sequential:
                    f.write('run_experiment(name="a", run="echo hi; echo err >&2")\n'
                            'run_experiment(name="b", run="echo b", deps=[":a"])\n')
                else:
                    for i in range(tasks):
                        f.write('run_command(name="t%d", run=":", parallelizable=True)\n' % i)
                    f.write('group(name="all", deps=[%s])\n' % ",".join('":t%d"' % i for i in range(tasks)))
            ps.append(subprocess.Popen(["bash", str(script), str(d)], stdout=subprocess.PIPE, text=True))
        hangs = fails = 0
        for p in ps:
            out, _ = p.communicate(timeout=runs_per_proc * (timeout + 5) + 60)
            try:
                h, f = out.split()
                hangs += int(h)
                fails += int(f)
            except ValueError:
                fails += 1
        return runs_per_proc * procs, hangs, fails
    finally:
        shutil.rmtree(base, ignore_errors=True)


def real_vs_sim_outcomes(n, seed):
    """fake kernel vs real bash children: the same small failing scenarios are executed by the real
    `cond` with real processes; exit status and the reported failed / skipped sets must agree with what
    the simulated run reported"""
    import re

    from . import profiles, props, obs

    r = random.Random(seed)
    compared, mism = 0, []
    P = props.PROPS["C03"]
    for k in range(n):
        scn = P.gen(r)
        if any(d.get("xg") for d in scn["tasks"].values()):
            continue        # instances of a run_experiment_group share one run string: not expressible here
        scn["history"] = scn["history"][:1]
        op = scn["history"][0]
        op["flags"].pop("stop_early", None)
        op["flags"]["jobs"] = 2
        op["cwd"] = ""
        for t, lst in list(op["scripts"].items()):
            for sc in lst:
                sc.pop("instant_exit", None)
                if sc.get("launch"):
                    sc.pop("launch")
                    sc["end"] = ["exit", 7]
        run = P.execute(scn, seed + k)
        try:
            st = run.steps[0]
            o = obs.RunObs(scn, st)
            sim_res = (st.inv.code != 0, sorted(o.report_failed or []), sorted(o.report_skipped or []))
        finally:
            runner._safe_rmtree(run.work)
        # the same project with real commands
        work = pathlib.Path(tempfile.mkdtemp(prefix="cverif-real-", dir=runner.SHM))
        try:
            real_scn = json.loads(json.dumps(scn))
            S.materialize(real_scn, work)
            for pkg in {S.split_tid(t)[0] for t in scn["tasks"]}:
                p = work / pkg / "COND"
                text = p.read_text()
                for t, d in scn["tasks"].items():
                    if d["kind"] not in ("exp", "cmd"):
                        continue
                    sc = (op["scripts"].get(t) or [sim.DEFAULT_SCRIPT])[0]
                    end = sc.get("end", ["exit", 0])
                    cmd = "exit %d #" % end[1] if end[0] == "exit" else "kill -%d $$ #" % end[1]
                    text = text.replace("run=%r" % ("sim " + t), "run=%r" % cmd)
                p.write_text(text)
            res = _real_cond(S.op_argv(op), work)
            text = obs.strip(res.stdout.decode("utf-8", "replace"))
            failed, skipped = [], []
            if "Failed task(s):" in text:
                tail = text.split("Failed task(s):", 1)[1]
                fp, _, sp = tail.partition("Skipped task(s)")
                failed = re.findall(r"^  (//\S+)$", fp, re.M)
                skipped = re.findall(r"^  (//\S+)$", sp, re.M) if sp else []
            real_res = (res.returncode != 0, sorted(failed), sorted(skipped))
            compared += 1
            if real_res != sim_res:
                mism.append({"sim": sim_res, "real": real_res, "seed": seed + k})
        finally:
            shutil.rmtree(work, ignore_errors=True)
    return compared, mism[:5]
