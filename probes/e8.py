# Where does CPython 3.12 run Python-level signal handlers? Sample with a real timer signal.
import signal, dis, collections, time, os, sys, json
seen=collections.Counter()
def h(sig, frame):
    seen[(frame.f_code, frame.f_lasti)]+=1
signal.signal(signal.SIGALRM, h)
class C:
    def __init__(s): s.x=1
    def m(s, a): return a+s.x
def pyf(a):
    b=a+1
    return b*2
def work(n):
    acc=0; c=C(); d={}
    for i in range(n):
        acc+=i
        x=pyf(i)
        y=len(str(i))
        d[i%7]=x+y
        z=c.m(i)
        acc = acc + z if z%2 else acc - z
        t=(i, x, y)
        s="%d" % i
        os.getpid()
        w = sorted([3,1,2])
    return acc
signal.setitimer(signal.ITIMER_REAL, 0.0003, 0.00037)
t0=time.time()
while time.time()-t0<6: work(2000)
signal.setitimer(signal.ITIMER_REAL, 0, 0)
# classify
res=collections.Counter(); bad=[]
for (code, lasti), cnt in seen.items():
    if code.co_name not in ("work","pyf","m","__init__"): continue
    ins={i.offset:i for i in dis.get_instructions(code, show_caches=False)}
    # f_lasti points at the last executed instruction
    i=ins.get(lasti)
    name=i.opname if i else "?"
    res[(code.co_name,name)]+=cnt
    if name not in ("RESUME","JUMP_BACKWARD","CALL","CALL_FUNCTION_EX","CALL_INTRINSIC_1"): bad.append((code.co_name,lasti,name,cnt))
for k,v in sorted(res.items()): print(k,v)
print("non-checkpoint observations:", bad)
for i in dis.get_instructions(work, show_caches=False):
    if 200<=i.offset<=262: print(i.offset, i.opname, i.argrepr, i.positions.lineno)
