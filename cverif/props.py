"""Registry: property id -> profile generator, oracle, budgets, evidence texts."""
from . import oracles, profiles, runner

COMMON_ASSUMPTIONS = [
    "the reference model in cverif/model.py (written from website/docs and the property text)",
    "the fake kernel follows Linux waitpid/getpgid/killpg semantics (cverif/sim.py)",
    "Python-level signal handlers run only at the check points measured on this CPython 3.12.1 "
    "(after CALL, at function entry); C-internal polls are not modelled (sound, incomplete)",
    "SQLite and tmpfs are atomic under process kill (no power-loss model)",
    "a clean batch is evidence over the seeds explored, not a proof",
]


class Prop:
    level = "exploration"
    quick_count = 400
    quick_budget = 60.0
    thorough_budget = 600.0
    quick_twice = 10
    assumptions = COMMON_ASSUMPTIONS
    rule = ""
    technique = "deterministic simulation with fault injection: seeded search over scenarios, schedules and faults"
    level_text = ("seeded exploration: many small generated projects and histories executed by the real "
                  "Conductor code under a simulated kernel/clock/scheduler; the oracle is evaluated on every "
                  "run; evidence over the seeds explored, not a proof")
    level_note = ("trusts the reference model (cverif/model.py), the fake kernel's fidelity to Linux process "
                  "semantics, the measured CPython 3.12 signal check points, SQLite/tmpfs atomicity under kill")

    def __init__(self, pid, gen, check, rule, **kw):
        self.pid = pid
        self.gen = gen
        self.check = check
        self.rule = rule
        for k, v in kw.items():
            setattr(self, k, v)

    def execute(self, scn, seed, plans=None):
        return runner.execute(scn, seed, plans)


PROPS = {}


def reg(pid, rule, **kw):
    PROPS[pid] = Prop(pid, profiles.GEN[pid], oracles.CHECKS[pid], rule, **kw)


GEN_TXT = ("scenario = random DAG (2-9 tasks over nested packages, all kinds, permuted dep listing) + "
           "history of cond invocations + child scripts + scheduler knobs, all from one seed; ")

reg("C01", GEN_TXT + "distinct = distinct (scenario shape, abstract event-sequence digest); non-trivial = "
    "the invocation started at least one task that has a transitive dependency executed in the same invocation",
    quick_count=1200)
reg("C02", GEN_TXT + "distinct = distinct (shape, digest); non-trivial = the model's needed set is non-empty "
    "(progress total, executed multiset and recorded rows are compared with it)", quick_count=1500)
reg("C03", GEN_TXT + "distinct = distinct (shape, digest); non-trivial = at least one needed task fails "
    "(exit code / signal / fork failure / exec failure) so the fail/skip closure is exercised",
    quick_count=1200)
reg("C04", GEN_TXT + "distinct = distinct (shape, digest); non-trivial = at least one task process was "
    "spawned (slot and exclusivity rules evaluated at every spawn/exit)", quick_count=1200)
reg("C09", GEN_TXT + "child exits land at arbitrary monitoring instants (LINE/CALL/PY_START/C_RETURN of "
    "conductor.* and subprocess.Popen); distinct = distinct (shape, digest); non-trivial = at least one "
    "task process ran to completion under the interposed kernel", quick_count=1500)
reg("C05", "scenario = 2-5 tasks (mostly experiments) + history interleaving git operations (commit, branch, "
    "checkout incl. detached, merge, dirty, init of a foreign repository) with cond run (default/--again/"
    "--at-least SYM/--this-commit), cond where, config toggles of disable_git and archive/restore of foreign "
    "rows; distinct = distinct (shape, digest); non-trivial = a run or where whose outcome depends on the "
    "selection rule (model plan non-empty, or flag validation exercised)", quick_count=1500)
reg("C07", GEN_TXT + "args/options of every primitive type, nested packages, invocation from drawn working "
    "directories, conductor.lib evaluated inside the stub child under its environment; distinct = distinct "
    "(shape, digest); non-trivial = at least one task process was spawned and its argv/cwd/env compared with "
    "the model", quick_count=1500)
reg("C08", GEN_TXT + "histories of runs that succeed, fail, are aborted by SIGINT/SIGTERM or killed, with "
    "clock gaps of 0 s, sub-second, backwards steps and restores of archives whose timestamps lie in the "
    "future; distinct = distinct (shape, digest); non-trivial = an experiment was spawned (freshness checked) "
    "or an operation ran while recorded versions existed (tree hashes compared)", quick_count=1200)
