#!/bin/bash
# usage: tools/confirm_seeded.sh <dir with patch.diff and demo.py|demo.sh>
# Confirms in a fresh scratch worktree of /repo HEAD: demo passes without the change, fails with it,
# the patch applies, and the 37 baseline tests still pass with the change.
d=$(readlink -f "$1")
wt=$(mktemp -d /tmp/confirm.XXXXXX); rmdir $wt
git -C /repo worktree add -q "$wt" HEAD || exit 3
demo=$d/demo.py; runner="/venv/bin/python"
[ -f "$d/demo.sh" ] && demo=$d/demo.sh && runner="bash"
export CSRC=$wt/src
(cd $wt && timeout 600 $runner $demo >/dev/null 2>&1); before=$?
if ! git -C $wt apply "$d/patch.diff"; then echo "RESULT patch-does-not-apply"; git -C /repo worktree remove --force $wt; exit 3; fi
(cd $wt && timeout 600 $runner $demo >/dev/null 2>&1); after=$?
# baseline tests with the change
out=$(mktemp); (cd $wt && PYTHONPATH=$wt/src /venv/bin/python -m pytest -q -p no:cacheprovider --timeout=900 --continue-on-collection-errors --junitxml=$out tests >/dev/null 2>&1)
miss=$(/venv/bin/python - $out <<'PY'
import json,sys,xml.etree.ElementTree as ET
base=json.load(open("/root/.vp/BASELINE.json"))["stable_pass"]
ok=set()
for tc in ET.parse(sys.argv[1]).getroot().iter("testcase"):
    if not any(c.tag in ("failure","error","skipped") for c in tc): ok.add("%s::%s"%(tc.get("classname"),tc.get("name")))
print(len([t for t in base if t not in ok]))
PY
)
rm -f $out
git -C /repo worktree remove --force $wt
echo "RESULT demo_without_change=$before demo_with_change=$after baseline_tests_missing=$miss"
