#!/bin/bash
# Runs all checks against every behaviour-preserving refactoring in /verif/benign (scratch copy, CVERIF_SRC).
cd /verif
for d in benign/ref*/; do
  echo "#### $d"
  COUNT=${COUNT:-400} NOSHRINK=1 tools/try_patch.sh $d/patch.diff C01 C02 C03 C04 C05 C06 C07 C08 C09 C10 C11 C12 C13 C16 C17 C18 2>&1 | grep -vE "rc=0 violations=0" | cut -c1-300
done
