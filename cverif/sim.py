"""The simulated machine: fake kernel (process table, signals), monitoring-driven instants and
check points, the seeded scheduler, baton-passed tee workers, the clock, the fake git binary and
the per-invocation process start/exit emulation.  See DESIGN.md section 3.

Everything Conductor does runs as real code; only the seams listed in DESIGN.md 3.2 are replaced.
"""
import base64
import concurrent.futures
import errno
import fcntl
import gc
import hashlib
import io
import json
import math
import multiprocessing
import os
import re
import pathlib
import random
import select
import shutil
import signal
import sqlite3
import subprocess
import sys
import threading
import time
import traceback
import types

FAKE_BASE = 5_000_000
MAIN_IDENT = threading.main_thread().ident

REAL = types.SimpleNamespace(
    fork_exec=subprocess._fork_exec,
    waitpid=os.waitpid,
    getpgid=os.getpgid,
    killpg=os.killpg,
    kill=os.kill,
    signal=signal.signal,
    getsignal=signal.getsignal,
    set_wakeup_fd=signal.set_wakeup_fd,
    read=os.read,
    time=time.time,
    sqlite_connect=sqlite3.connect,
    cpu_count=multiprocessing.cpu_count,
    mkdir=os.mkdir,
    symlink=os.symlink,
    unlink=os.unlink,
    subprocess_run=subprocess.run,
)

CUR = None  # the Sim whose invocation is currently executing (None outside invocations)


class SimDeadlock(BaseException):
    """Main thread blocked with no enabled environment event: the production hang."""


class SimSigDeath(BaseException):
    """the simulated cond process was terminated by the default action of a signal"""

    def __init__(self, signum):
        super().__init__(signum)
        self.signum = int(signum)


class SimLimit(BaseException):
    """Harness step cap exceeded (reported as harness error, never as a violation)."""


class SimUnsupported(SimLimit):
    """The program asked a stub for something it does not model (harness error, never a violation)."""


def is_main():
    return threading.get_ident() == MAIN_IDENT


def fd_readable(fd):
    """poll-based (select() cannot handle descriptors >= 1024)"""
    p = select.poll()
    p.register(fd, select.POLLIN | select.POLLHUP | select.POLLERR)
    return bool(p.poll(0))


def fd_writable(fd):
    p = select.poll()
    p.register(fd, select.POLLOUT | select.POLLERR)
    return bool(p.poll(0))


# ------------------------------------------------------------------------------------------
# deterministic byte strings for stub children


def gen_bytes(spec, tag):
    """spec = {"k": "txt"|"bin"|"all", "n": int, "seed": int}.  Every string starts with a tag that is
    unique per (task, execution, step) so any byte found anywhere is attributable."""
    kind, n, seed = spec["k"], spec["n"], spec.get("seed", 0)
    if n == 0:
        return b""
    head = ("<%s>" % tag).encode()
    r = random.Random(seed)
    if kind == "txt":
        body = bytearray()
        while len(body) < n:
            body += ("line %d of %s\n" % (r.randrange(10**6), tag)).encode()
        data = head + bytes(body)
    elif kind == "all":
        data = head + bytes(range(256)) * ((n // 256) + 1)
    else:
        data = head + r.randbytes(n)
    data = data[: max(n, 1)]
    # Conductor's own status lines start with ESC[ ... ; keep the task's bytes free of ESC and of
    # the UTF-8 lead byte of its glyphs so the offset-window oracle can find the boundaries.
    return data.replace(b"\x1b", b"\x1c").replace(b"\xe2", b"\xe3").replace(b"\xf0", b"\xf1")


# ------------------------------------------------------------------------------------------
# stub child process


class Proc:
    __slots__ = (
        "pid", "task", "execno", "argv", "cwd", "env", "fds", "script", "ip", "state", "status",
        "term", "term_delay", "partial", "registered", "sigs", "stray", "label", "detached", "group",
        "stopped", "stop_unreported", "stop_left",
    )

    def __init__(self, pid, task, execno, argv, cwd, env, fds, script):
        self.pid = pid
        self.task = task
        self.execno = execno
        self.argv = argv
        self.cwd = cwd
        self.env = env
        self.fds = fds
        self.script = script
        self.ip = 0
        self.state = "running"
        self.status = None
        self.term = False
        self.term_delay = script.get("term_delay", 0)
        self.partial = None
        self.sigs = []
        self.stray = False
        self.label = None
        self.detached = False      # a grandchild: not waitable by cond, no SIGCHLD
        self.group = pid
        self.stopped = None        # job-control stop: the signal that stopped it (alive, makes no progress)
        self.stop_unreported = False
        self.stop_left = 0

    @property
    def name(self):
        return self.label or "%s#%d" % (self.task, self.execno)


DEFAULT_SCRIPT = {"steps": [], "end": ["exit", 0]}


# ------------------------------------------------------------------------------------------
# tee worker pool under a baton


_REAL_THREAD = threading.Thread


class _UnboundedPool:
    """stands in for "the executor" of a thread the program starts itself (no limit on how many run)"""
    max = 1 << 30


class SimThread(_REAL_THREAD):
    """threading.Thread as seen process-wide.  A thread started by the main thread of a simulated invocation
    becomes a baton-passed worker like a job of the simulated pool: it runs only when the scheduler resumes it,
    parks before every raw read of a child's pipe (and at line boundaries of monitored code), join() is a
    blocking point.  Everything else (the simulator's own threads, threads outside an invocation) is a real
    thread."""

    _sim_worker = None

    def start(self):
        s = CUR
        if s is None or not is_main():
            return _REAL_THREAD.start(self)
        w = Worker(len(s.workers), _UnboundedPool, self.run, (), {})
        # the BufferedReader of a child's pipe handed to the thread is replaced by the parking proxy
        try:
            self._args = tuple(PipeProxy(w, a) if isinstance(a, io.BufferedReader) else a for a in self._args)
            w.args = self._args
        except AttributeError:
            pass
        w.daemon = bool(self.daemon)
        self._sim_worker = w
        s.workers.append(w)
        s.emit("threadstart", w.idx, bool(self.daemon))
        s.count("reach.program_started_a_raw_thread")

    def join(self, timeout=None):
        w = self._sim_worker
        if w is None:
            return _REAL_THREAD.join(self, timeout)
        s = CUR
        if s is not None and is_main() and w.state != "done" and timeout is None:
            s.block(lambda: w.state == "done", "join")

    def is_alive(self):
        w = self._sim_worker
        if w is None:
            return _REAL_THREAD.is_alive(self)
        return w.state != "done"


class SimFuture(concurrent.futures.Future):
    def result(self, timeout=None):
        s = CUR
        if s is not None and is_main() and not self.done():
            s.block(self.done, "future")
        return super().result(timeout)


_REAL_FUTURE_RESULT = concurrent.futures.Future.result


def _sh_future_result(self, timeout=None):
    """Future.result() of any future (also one the program made itself): waiting for it in the main thread of
    a simulated invocation is a blocking point"""
    s = CUR
    if s is not None and is_main() and timeout is None and not self.done() and not isinstance(self, SimFuture):
        s.block(self.done, "future")
    return _REAL_FUTURE_RESULT(self, timeout)


class _Abandon(BaseException):
    pass


class Worker:
    def __init__(self, idx, executor, fn, args, kwargs):
        self.idx = idx
        self.executor = executor
        self.fn = fn
        self.args = args
        self.kwargs = kwargs
        self.future = SimFuture()
        self.go = threading.Semaphore(0)
        self.back = threading.Semaphore(0)
        self.state = "queued"  # queued | parked | running | done
        self.wait_fd = None
        self.abandon = False
        self.in_proxy = False
        self.daemon = False         # a daemon thread of the program is not waited for at interpreter exit
        self.thread = _REAL_THREAD(target=self._body, name="simtee-%d" % idx, daemon=True)
        _REAL_THREAD.start(self.thread)

    def _body(self):
        self.go.acquire()
        try:
            if self.abandon:
                raise _Abandon()
            s = CUR
            if s is not None:
                s.worker_by_ident[threading.get_ident()] = self
            self.state = "running"
            r = self.fn(*self.args, **self.kwargs)
            self.future.set_result(r)
        except _Abandon:
            self.future.set_exception(RuntimeError("abandoned at process exit"))
        except BaseException as ex:  # noqa
            self.future.set_exception(ex)
        finally:
            self.state = "done"
            self.back.release()

    def park(self, fd):
        self.wait_fd = fd
        self.state = "parked"
        self.back.release()
        self.go.acquire()
        if self.abandon:
            raise _Abandon()
        self.wait_fd = None
        self.state = "running"

    def enabled(self, active):
        if self.state == "queued":
            return active < self.executor.max
        if self.state == "parked":
            if self.wait_fd is None:
                return True         # parked at a line boundary, can always continue
            return fd_readable(self.wait_fd)
        return False

    def step(self):
        self.go.release()
        self.back.acquire()


class PipeProxy:
    """Stands in for the BufferedReader of a child's pipe inside a tee job.  Every raw read is a
    parking point, so the scheduler decides when (and therefore with which chunking) it happens."""

    def __init__(self, worker, f):
        self._w = worker
        self._f = f
        self._fd = f.fileno()
        self._buf = b""
        self._eof = False

    def _fill(self, n):
        self._w.park(self._fd)
        data = REAL.read(self._fd, max(n, 1))
        if not data:
            self._eof = True
        s = CUR
        if s is not None:
            s.emit("teeread", self._w.idx, len(data))
        return data

    def read1(self, n=-1):
        if n is None or n < 0:
            n = 8192
        if self._buf:
            out, self._buf = self._buf[:n], self._buf[n:]
            return out
        if self._eof:
            return b""
        return self._fill(n)

    def read(self, n=-1):
        if n is None or n < 0:
            chunks = [self._buf]
            self._buf = b""
            while not self._eof:
                chunks.append(self._fill(65536))
            return b"".join(chunks)
        while len(self._buf) < n and not self._eof:
            self._buf += self._fill(n - len(self._buf))
        out, self._buf = self._buf[:n], self._buf[n:]
        return out

    def readline(self, limit=-1):
        while b"\n" not in self._buf and not self._eof:
            self._buf += self._fill(4096)
        i = self._buf.find(b"\n")
        i = len(self._buf) if i < 0 else i + 1
        out, self._buf = self._buf[:i], self._buf[i:]
        return out

    def __iter__(self):
        return self

    def __next__(self):
        line = self.readline()
        if not line:
            raise StopIteration
        return line

    def readinto(self, b):
        data = self.read1(len(b))
        b[: len(data)] = data
        return len(data)

    def readinto1(self, b):
        return self.readinto(b)

    def peek(self, n=0):
        if not self._buf and not self._eof:
            self._buf = self._fill(4096)
        return self._buf

    def fileno(self):
        return self._fd

    def close(self):
        self._f.close()

    @property
    def closed(self):
        return self._f.closed

    def readable(self):
        return True

    def __enter__(self):
        return self

    def __exit__(self, *a):
        self.close()


class SimExecutor:
    """Replacement for concurrent.futures.ThreadPoolExecutor inside conductor.utils.tee."""

    def __init__(self, max_workers=None, *a, **kw):
        self.max = max_workers or 4
        self.jobs = []
        self.shut = False

    def submit(self, fn, *args, **kwargs):
        s = CUR
        if s is None:
            raise RuntimeError("SimExecutor used outside a simulated invocation")
        if self.shut:
            raise RuntimeError("cannot schedule new futures after shutdown")
        w = Worker(len(s.workers), self, fn, None, kwargs)
        w.args = tuple(PipeProxy(w, a) if isinstance(a, io.BufferedReader) else a for a in args)
        s.workers.append(w)
        self.jobs.append(w)
        s.emit("teesubmit", w.idx)
        return w.future

    def map(self, fn, *iterables, timeout=None, chunksize=1):
        """as concurrent.futures.Executor.map: every call is submitted at once; the results (and the exceptions)
        only surface when the returned iterator is consumed"""
        futs = [self.submit(fn, *args) for args in zip(*iterables)]

        def results():
            for f in futs:
                yield f.result()

        return results()

    def active(self):
        return sum(1 for w in self.jobs if w.state in ("parked", "running"))

    def shutdown(self, wait=True, cancel_futures=False):
        self.shut = True
        s = CUR
        if wait and s is not None and is_main():
            s.block(lambda: all(w.state == "done" for w in self.jobs), "shutdown")

    def __enter__(self):
        return self

    def __exit__(self, *a):
        self.shutdown(wait=True)
        return False


class _ExecutorSwitch:
    """concurrent.futures.ThreadPoolExecutor as seen process-wide: the simulated pool inside a simulated
    invocation, the real one everywhere else"""

    def __new__(cls, *a, **kw):
        if CUR is not None and is_main():
            return SimExecutor(*a, **kw)
        return _REAL_TPE(*a, **kw)


_REAL_TPE = concurrent.futures.ThreadPoolExecutor


# ------------------------------------------------------------------------------------------
# own stdout / stderr of the simulated cond process


class Sink(io.RawIOBase):
    def __init__(self, limit=None, stall_at=None):
        super().__init__()
        self.data = bytearray()
        self.limit = limit      # I/O fault: the reader goes away once this many bytes have been written
        self.stall_at = stall_at    # I/O fault: the reader stops reading for a while once this many bytes were written
        self.released = False
        self.waiting = False
        self.broken = False
        self.patience = 0           # how many scheduling rounds the reader stays away at least

    def writable(self):
        return True

    def write(self, b):
        s = CUR
        if self.stall_at is not None and not self.released and len(self.data) >= self.stall_at \
                and s is not None and is_main() and not s.in_cb and s.dead is None \
                and not any(w.state != "done" for w in s.workers):
            # (not while a tee thread is alive: it writes through the same BufferedWriter, whose lock the blocked
            # main thread holds - the simulator could not step that thread)
            # a paused pager, a terminal in Ctrl-S, a log collector applying back pressure: write() blocks until
            # the reader resumes (an environment event)
            self.waiting = True
            s.count("fault.own_stdout_stalled")
            try:
                s.block(lambda: self.released, "stdout-stalled")
            finally:
                self.waiting = False
        if self.limit is not None and len(self.data) >= self.limit:
            s = CUR
            if s is not None:
                s.count("fault.own_stdout_EPIPE_after_n_bytes")
            self.broken = True
            raise BrokenPipeError(errno.EPIPE, "Broken pipe")
        self.data += bytes(b)
        return len(b)


class OutText(io.TextIOWrapper):
    _kind = "out"

    def write(self, text):
        s = CUR
        if s is not None and is_main() and self._kind == "out" and getattr(s, "stdout_gone", False):
            # the reader of Conductor's own stdout has gone away (`cond run ... | head`, Ctrl-C kills the
            # whole pipeline): unbuffered / line-buffered writes fail from now on
            s.count("fault.own_stdout_closed_by_reader")
            raise BrokenPipeError(errno.EPIPE, "Broken pipe")
        if s is not None and is_main() and text.strip():
            s.emit(self._kind, text)
        return super().write(text)


class ErrText(OutText):
    _kind = "errout"


# ------------------------------------------------------------------------------------------
# fake git


def commit_hash(name):
    return hashlib.sha1(("commit:" + name).encode()).hexdigest()


def tag_object_hash(name):
    """hash of the tag OBJECT of an annotated tag (what `git rev-parse <tag>` prints; the commit is <tag>^{commit})"""
    return hashlib.sha1(("tagobject:" + name).encode()).hexdigest()


class FakeGit:
    """Interprets the git argv that conductor.utils.git issues against an in-memory commit DAG.
    state = {"mode": "none"|"repo", "commits": {name: [parent names]}, "head": name|None,
             "dirty": bool, "branches": {branch: name}}"""

    def __init__(self, state):
        self.state = state
        self.calls = 0
        self._anc_cache = {}
        self._nested = None
        self.log = None

    def _by_hash(self, h):
        for name in self.state.get("commits", {}):
            if commit_hash(name) == h:
                return name
        for tname, t in self.state.get("tags", {}).items():
            if t.get("annotated") and tag_object_hash(tname) == h:
                return t["commit"]        # commands that take a commit-ish peel the tag
        return None

    def ancestors(self, name):
        """inclusive ancestor set (names)"""
        if name in self._anc_cache:
            return self._anc_cache[name]
        seen = set()
        stack = [name]
        commits = self.state["commits"]
        while stack:
            c = stack.pop()
            if c in seen:
                continue
            seen.add(c)
            stack.extend(commits[c])
        self._anc_cache[name] = seen
        return seen

    def first_parent_chain(self, name):
        out = set()
        commits = self.state["commits"]
        c = name
        while c is not None and c not in out:
            out.add(c)
            ps = commits[c]
            c = ps[0] if ps else None
        return out

    def resolve(self, sym):
        st = self.state
        if sym.endswith("^{commit}"):
            return self.resolve(sym[:-len("^{commit}")])
        if sym == "HEAD":
            return st.get("head")
        if sym in st.get("tags", {}) and sym not in st.get("branches", {}):
            return st["tags"][sym]["commit"]
        if sym in st.get("branches", {}):
            return st["branches"][sym]
        if len(sym) >= 4:
            cands = [n for n in st.get("commits", {}) if commit_hash(n).startswith(sym)]
            if len(cands) == 1:
                return cands[0]
        return None

    def run(self, argv, cwd=None, check=False, stdout=None, stderr=None, capture_output=False,
            text=False, **kw):
        self.calls += 1
        s = CUR
        if s is not None:
            s.emit("git", " ".join(argv[1:3]))
        target = self
        nested = self.state.get("nested")
        if nested and s is not None:
            # git answers for the repository that contains the directory it is started in
            where = os.path.realpath(os.fspath(cwd) if cwd is not None else os.getcwd())
            ndir = os.path.realpath(os.path.join(str(s.root), nested["dir"]))
            if where == ndir or where.startswith(ndir + os.sep):
                if self._nested is None or self._nested.state is not nested["state"]:
                    self._nested = FakeGit(nested["state"])
                target = self._nested
        rc, out = target._exec(argv[1:])
        if self.log is not None:
            self.log.append((list(argv), rc, out))
        if s is not None and s.handlers.get(int(signal.SIGCHLD)) == signal.SIG_IGN:
            # SIGCHLD is ignored (inherited, and the program has not put the default back): the kernel reaps the
            # child itself, waitpid() says ECHILD and subprocess reports exit status 0 whatever git said
            if rc != 0:
                s.count("reach.git_exit_status_lost_because_SIGCHLD_is_ignored")
            rc = 0
        if s is not None and is_main():
            s.after_call()
        o = out if text else out.encode()
        if not (capture_output or stdout == subprocess.PIPE):
            o = None
        return subprocess.CompletedProcess(argv, rc, o, ("" if text else b"") if capture_output else None)

    def _exec(self, a):
        st = self.state
        if st.get("mode") != "repo":
            return 128, ""
        if a[:2] == ["rev-parse", "--git-dir"]:
            return 0, ".git\n"
        if a[0] == "rev-parse":
            args_ = [x for x in a[1:] if x not in ("--verify", "--quiet", "-q")]
            if len(args_) != 1 or [x for x in a[1:] if x.startswith("-") and x not in ("--verify", "--quiet", "-q")]:
                raise SimUnsupported("fake git: %r is not modelled" % (a,))
            sym = args_[0]
            c = self.resolve(sym)
            if c is None:
                if "--verify" in a and ("--quiet" in a or "-q" in a):
                    return 1, ""
                return 128, ("" if "--verify" in a else sym + "\n")
            t = st.get("tags", {}).get(sym)
            if t is not None and t.get("annotated") and sym not in st.get("branches", {}):
                return 0, tag_object_hash(sym) + "\n"      # the tag object, not the commit it points at
            return 0, commit_hash(c) + "\n"
        dirty = st.get("dirty")
        staged = dirty == "staged"
        unstaged = bool(dirty) and not staged
        if a[0] == "diff-index":
            opts = [x for x in a[1:] if x.startswith("-")]
            if [o for o in opts if o not in ("--quiet", "--cached", "--exit-code")]:
                raise SimUnsupported("fake git: %r is not modelled" % (a,))
            if st.get("head") is None:
                return 128, ""
            differs = staged if "--cached" in opts else (staged or unstaged)
            return (1 if differs else 0), ("" if "--quiet" in opts else (":100644 100644 0 0 M\tf\n" if differs else ""))
        if a[0] == "diff":
            opts = [x for x in a[1:] if x.startswith("-")]
            revs = [x for x in a[1:] if not x.startswith("-")]
            if [o for o in opts if o not in ("--quiet", "--cached", "--staged", "--exit-code")] or [x for x in revs if x != "HEAD"]:
                raise SimUnsupported("fake git: %r is not modelled" % (a,))
            if ("--cached" in opts or "--staged" in opts):
                differs = staged                      # index vs HEAD
            elif revs:
                if st.get("head") is None:
                    return 128, ""
                differs = staged or unstaged          # work tree vs HEAD
            else:
                differs = unstaged                    # work tree vs index
            quiet = "--quiet" in opts or "--exit-code" in opts
            return (1 if differs and quiet else 0), ("" if "--quiet" in opts or not differs else "diff --git a/f b/f\n")
        if a[0] == "status":
            if [x for x in a[1:] if x not in ("--porcelain", "-s", "--short", "-uno", "--untracked-files=no")]:
                raise SimUnsupported("fake git: %r is not modelled" % (a,))
            return 0, ("M  f\n" if staged else (" M f\n" if unstaged else ""))
        if a[:2] == ["merge-base", "--is-ancestor"]:
            anc = self._by_hash(a[2]) or self.resolve(a[2])
            desc = self._by_hash(a[3]) or self.resolve(a[3])
            if anc is None or desc is None:
                return 128, ""
            return (0 if anc in self.ancestors(desc) else 1), ""
        if a[0] == "rev-list":
            # rev-list [--count] [--first-parent] <included>... ^<excluded>... | <excl>..<incl>
            opts = [x for x in a[1:] if x.startswith("--")]
            revs = [x for x in a[1:] if not x.startswith("--")]
            unknown = [o for o in opts if o not in ("--count", "--first-parent")]
            if unknown:
                raise SimUnsupported("fake git: rev-list option %r is not modelled" % unknown)
            inc, exc = [], []
            for rv in revs:
                if ".." in rv and "..." not in rv:
                    lo, hi = rv.split("..", 1)
                    exc.append(lo or "HEAD")
                    inc.append(hi or "HEAD")
                elif rv.startswith("^"):
                    exc.append(rv[1:])
                else:
                    inc.append(rv)

            def res(sym):
                n = self._by_hash(sym)
                return n if n is not None else self.resolve(sym)

            inc_n, exc_n = [res(x) for x in inc], [res(x) for x in exc]
            if None in inc_n or None in exc_n or not inc_n:
                return 128, ""
            first = "--first-parent" in opts
            out = set()
            for n in inc_n:
                out |= self.first_parent_chain(n) if first else self.ancestors(n)
            for n in exc_n:
                # exclusions always remove the full ancestry of the excluded revision
                out -= self.ancestors(n)
            if "--count" in opts:
                return 0, "%d\n" % len(out)
            return 0, "".join(commit_hash(n) + "\n" for n in sorted(out))
        if a[0] == "ls-files":
            return 0, ""
        raise SimUnsupported("fake git: %r is not modelled" % (a,))


# ------------------------------------------------------------------------------------------
# scheduler: every nondeterministic choice comes from here


class Sched:
    """PRNG mode: draws from random.Random(seed-for-this-invocation) and records what it chose.
    Plan mode: replays a recorded plan {"async": {n: [action,...]}, "block": [action,...]};
    missing / disabled entries fall back to the first enabled action in sorted order."""

    def __init__(self, seed, knobs, plan=None):
        self.rng = random.Random(seed)
        self.knobs = knobs
        self.plan = plan
        self.rec_async = {}
        self.rec_block = []
        self._bi = 0
        self.p = knobs.get("p_async", 0.0)
        self.p_burst = knobs.get("p_burst", 0.0)
        self.bias = knobs.get("bias", "uniform")

    def gap(self):
        if self.plan is not None or self.p <= 0:
            return 1 << 60
        u = self.rng.random()
        if self.p >= 1:
            return 1
        return int(math.log(1.0 - u) / math.log(1.0 - self.p)) + 1

    def at_instant(self, n, acts_fn):
        """returns list of actions to perform at instant n (may be empty)"""
        if self.plan is not None:
            want = self.plan.get("async", {}).get(str(n))
            if not want:
                return []
            return list(want)
        acts = acts_fn()
        if not acts:
            return []
        out = [self.rng.choice(acts)]
        while self.p_burst and self.rng.random() < self.p_burst:
            out.append(self.rng.choice(acts))
        self.rec_async[str(n)] = out
        return out

    def at_block(self, acts):
        """returns the list of environment events that happen before the blocked main thread gets to
        run again (usually one; several = e.g. a few children exiting before cond is scheduled)"""
        acts = sorted(acts)
        if self.plan is not None:
            lst = self.plan.get("block", [])
            a = None
            if self._bi < len(lst):
                a = lst[self._bi]
                self._bi += 1
            group = [x for x in (a.split("+") if a else []) if x in acts]
            if not group:
                group = [acts[0]]
            self.rec_block.append("+".join(group))
            return group
        b = self.bias
        if b == "fifo":
            a = acts[0] if self.rng.random() < 0.8 else self.rng.choice(acts)
        elif b == "lifo":
            a = acts[-1] if self.rng.random() < 0.8 else self.rng.choice(acts)
        else:
            a = self.rng.choice(acts)
        group = [a]
        while self.p_burst and len(group) < len(acts) and self.rng.random() < self.p_burst:
            rest = [x for x in acts if x not in group]
            group.append(self.rng.choice(rest))
        self.rec_block.append("+".join(group))
        return group

    def recorded(self):
        return {"async": self.rec_async, "block": self.rec_block}


# ------------------------------------------------------------------------------------------
# monitoring


class Monitor:
    TOOL = 3

    def __init__(self):
        self.mon = sys.monitoring
        self.E = self.mon.events
        self.codes = set()
        self.kill_codes = set()
        self.enabled = False
        self.registered = False

    @staticmethod
    def _codes_of(obj, seen):
        if isinstance(obj, types.CodeType):
            if obj in seen:
                return
            seen.add(obj)
            for c in obj.co_consts:
                Monitor._codes_of(c, seen)
        elif isinstance(obj, types.FunctionType):
            Monitor._codes_of(obj.__code__, seen)
        elif isinstance(obj, (staticmethod, classmethod)):
            Monitor._codes_of(obj.__func__, seen)
        elif isinstance(obj, property):
            for f in (obj.fget, obj.fset, obj.fdel):
                if f:
                    Monitor._codes_of(f, seen)
        elif isinstance(obj, type):
            for v in vars(obj).values():
                Monitor._codes_of(v, seen)

    def discover(self):
        import conductor.__main__  # noqa
        import contextlib

        seen = set()
        for name, mod in sorted(sys.modules.items()):
            if name == "conductor" or name.startswith("conductor."):
                if "proto_gen" in name or ".envs" in name or "explorer" in name:
                    continue
                for v in list(vars(mod).values()):
                    if getattr(v, "__module__", None) == name:
                        self._codes_of(v, seen)
        P = subprocess.Popen
        for f in (P.__init__, P._execute_child, P.__del__, P._internal_poll, subprocess._cleanup,
                  P._handle_exitstatus, P._try_wait, P.wait, P._wait, P.poll, P._get_handles,
                  P._close_pipe_fds, P.__exit__, P.__enter__):
            self._codes_of(f, seen)
        for f in (contextlib._GeneratorContextManager.__enter__,
                  contextlib._GeneratorContextManager.__exit__):
            self._codes_of(f, seen)
        # the standard logging machinery: Handler.handle()/emit() swallow every Exception a record causes, an
        # abort raised by a signal handler while the main thread is in there included
        import logging as _logging

        for v in list(vars(_logging).values()):
            if getattr(v, "__module__", None) == "logging":
                self._codes_of(v, seen)
        self.codes = seen
        kill = set()
        for f in (shutil.copytree, shutil._copytree, shutil.copy2, shutil.copyfile, shutil.copystat,
                  shutil.rmtree, shutil._rmtree_safe_fd, shutil.copy, shutil.copymode):
            self._codes_of(f, kill)
        self.kill_codes = kill - seen

    def register(self):
        if self.registered:
            return
        try:
            self.mon.use_tool_id(self.TOOL, "cverif")
        except ValueError:
            pass
        E = self.E
        self.mon.register_callback(self.TOOL, E.LINE, _cb_line)
        self.mon.register_callback(self.TOOL, E.PY_START, _cb_start)
        self.mon.register_callback(self.TOOL, E.CALL, _cb_call)
        self.mon.register_callback(self.TOOL, E.C_RETURN, _cb_cret)
        self.mon.register_callback(self.TOOL, E.C_RAISE, _cb_cret)
        self.registered = True

    def set_enabled(self, on):
        if on == self.enabled:
            return
        if not self.codes:
            self.discover()
        self.register()
        E = self.E
        ev = (E.LINE | E.PY_START | E.CALL) if on else 0
        for c in self.codes:
            self.mon.set_local_events(self.TOOL, c, ev)
        ev2 = E.CALL if on else 0
        for c in self.kill_codes:
            self.mon.set_local_events(self.TOOL, c, ev2)
        self.enabled = on


MONITOR = Monitor()


def _cb_line(code, line):
    s = CUR
    if s is None:
        return
    ident = threading.get_ident()
    if ident != MAIN_IDENT:
        # a tee worker executing Conductor code: every line is a pre-emption point
        w = s.worker_by_ident.get(ident)
        if w is not None and w.state == "running" and not w.in_proxy:
            w.park(None)
        return
    if s.in_cb:
        return
    s.in_cb = 1
    try:
        s.on_instant()
    finally:
        s.in_cb = 0


def _cb_call(code, off, fn, arg0):
    s = CUR
    if s is None or s.in_cb or threading.get_ident() != MAIN_IDENT:
        return
    s.in_cb = 1
    try:
        if not isinstance(fn, types.FunctionType):
            s.kill_instant(code, fn, "call")
        s.on_instant()
    finally:
        s.in_cb = 0


def _cb_start(code, off):
    s = CUR
    if s is None or s.in_cb or threading.get_ident() != MAIN_IDENT:
        return
    s.in_cb = 1
    try:
        s.on_instant()
        s.checkpoint(code, "start")
    finally:
        s.in_cb = 0


def _cb_cret(code, off, fn, arg0):
    s = CUR
    if s is None or s.in_cb or threading.get_ident() != MAIN_IDENT:
        return
    s.in_cb = 1
    try:
        s.kill_instant(code, fn, "ret")
        s.on_instant()
        s.checkpoint(code, "cret:" + getattr(fn, "__name__", "?"))
    finally:
        s.in_cb = 0


# ------------------------------------------------------------------------------------------
# shims installed at the standard-library boundary


def _is_task_command(args):
    try:
        if len(args) >= 3 and os.fsdecode(args[1]) == "-c" and os.fsdecode(args[2]).startswith("sim "):
            return True
    except Exception:
        pass
    return False


_TAR_KILLED_SCRIPT = (
    'tar "$@" || exit $?\n'
    'f=$(find "$4" -type f ! -name "*.sqlite" | LC_ALL=C sort | tail -n 1)\n'
    '[ -n "$f" ] && rm -f "$f"\n'
    'kill -KILL $$\n')


def _sh_fork_exec(*a):
    s = CUR
    if s is None or not is_main() or not _is_task_command(a[0]):
        if s is not None:
            try:
                argv = [os.fsdecode(x) for x in a[0]]
            except Exception:
                argv = []
            if (s.op or {}).get("tar_killed") and len(argv) == 5 and argv[0] == "tar" and argv[1] == "xzf" and argv[3] == "-C":
                # fault: the tar child is killed by a signal (OOM killer, `kill`) after it has extracted
                # everything but its last file, while Conductor itself survives
                s.count("fault.tar_child_killed_by_signal")
                a = (["/bin/sh", "-c", _TAR_KILLED_SCRIPT, "sh"] + argv[1:], (b"/bin/sh",)) + tuple(a[2:])
            # a real helper process (tar): its exec-error pipe is read with a real blocking read
            s.real_fds.add(a[12])
        return REAL.fork_exec(*a)
    if s.dead is not None:
        raise SimSigDeath(s.dead)
    pid = s.k_fork_exec(*a)
    s.after_call()
    return pid


def _sh_waitpid(pid, flags):
    s = CUR
    if s is None or not is_main() or (pid != -1 and pid < FAKE_BASE):
        return REAL.waitpid(pid, flags)
    try:
        r = s.k_waitpid(pid, flags)
    except OSError:
        s.after_call()
        raise
    s.after_call()
    return r


def _sh_getpgid(pid):
    s = CUR
    if s is None or pid < FAKE_BASE:
        return REAL.getpgid(pid)
    try:
        r = s.k_getpgid(pid)
    except OSError:
        s.after_call()
        raise
    s.after_call()
    return r


def _sh_killpg(pg, sig):
    s = CUR
    if s is None or pg < FAKE_BASE:
        return REAL.killpg(pg, sig)
    if s.dead is not None:
        raise SimSigDeath(s.dead)
    try:
        s.k_kill(pg, sig, group=True)
    except OSError:
        s.after_call()
        raise
    s.after_call()


def _sh_kill(pid, sig):
    s = CUR
    if s is None or pid < FAKE_BASE:
        return REAL.kill(pid, sig)
    try:
        s.k_kill(pid, sig, group=False)
    except OSError:
        s.after_call()
        raise
    s.after_call()


def _sh_signal(sig, h):
    s = CUR
    if s is not None and is_main() and sig not in (signal.SIGCHLD, signal.SIGINT, signal.SIGTERM):
        # another signal (a COND file that does `signal.signal(SIGPIPE, SIG_DFL)`, ...): recorded for the simulated
        # process only - the dispositions of the simulator's own process are not the program's to change
        old = s.other_handlers.get(int(sig))
        if old is None:
            old = REAL.getsignal(sig)       # what a fresh Python process has (SIGPIPE: SIG_IGN, ...)
        s.other_handlers[int(sig)] = h
        s.emit("sigreg-other", int(sig))
        return old
    if s is None or not is_main() or sig not in (signal.SIGCHLD, signal.SIGINT, signal.SIGTERM):
        return REAL.signal(sig, h)
    old = s.handlers.get(sig, signal.SIG_DFL)
    s.handlers[sig] = h
    s.sa_restart[int(sig)] = False        # signal.signal() implies siginterrupt(sig, True)
    if sig == signal.SIGCHLD and getattr(s, "real_chld_fault", False):
        # the inherited SIG_IGN is a real disposition of this process (it decides what waitpid() says
        # about the real tar child): what the program sets replaces it
        REAL.signal(signal.SIGCHLD, signal.SIG_IGN if h == signal.SIG_IGN else signal.SIG_DFL)
    s.registered.add(int(sig))
    s.emit("sigreg", signal.Signals(sig).name, getattr(h, "__name__", str(h)))
    s.after_call()
    return old


def _sh_pthread_sigmask(how, mask):
    s = CUR
    if s is None or not is_main():
        return REAL_SIGMASK(how, mask)
    ours = {int(signal.SIGCHLD), int(signal.SIGINT), int(signal.SIGTERM)}
    old = set(s.blocked)
    m = {int(x) for x in mask} & ours
    if how == signal.SIG_BLOCK:
        s.blocked |= m
    elif how == signal.SIG_UNBLOCK:
        s.blocked -= m
    elif how == signal.SIG_SETMASK:
        s.blocked = m
    s.emit("sigmask", how, sorted(s.blocked))
    released = sorted(s.blocked_pending - s.blocked)
    for sg in released:
        s.blocked_pending.discard(sg)
        s.raise_signal(sg)            # delivered the moment it is unblocked
    s.after_call()
    return {signal.Signals(x) for x in old}


REAL_SIGMASK = signal.pthread_sigmask


def _sh_siginterrupt(sig, flag):
    s = CUR
    if s is None or not is_main() or sig not in (signal.SIGCHLD, signal.SIGINT, signal.SIGTERM):
        return REAL_SIGINTERRUPT(sig, flag)
    s.sa_restart[int(sig)] = not flag
    s.emit("siginterrupt", signal.Signals(sig).name, bool(flag))
    s.after_call()


REAL_SIGINTERRUPT = signal.siginterrupt


def _sh_set_wakeup_fd(fd, *, warn_on_full_buffer=True):
    s = CUR
    if s is None or not is_main():
        return REAL.set_wakeup_fd(fd, warn_on_full_buffer=warn_on_full_buffer)
    old = s.wakeup_fd if s.wakeup_fd is not None else -1
    s.wakeup_fd = fd if fd >= 0 else None
    s.emit("wakeupfd", fd >= 0)
    s.after_call()
    return old


def _sh_getsignal(sig):
    s = CUR
    if s is not None and is_main() and sig not in (signal.SIGCHLD, signal.SIGINT, signal.SIGTERM):
        h_ = s.other_handlers.get(int(sig))
        return h_ if h_ is not None else REAL.getsignal(sig)
    if s is None or sig not in (signal.SIGCHLD, signal.SIGINT, signal.SIGTERM):
        return REAL.getsignal(sig)
    return s.handlers.get(sig, signal.SIG_DFL)


def _sh_read(fd, n):
    s = CUR
    if s is None or not is_main() or s.in_cb or fd in s.real_fds:
        return REAL.read(fd, n)
    if not fd_readable(fd):
        s.block(lambda: fd_readable(fd), "read")
    data = REAL.read(fd, n)
    s.after_call()
    return data


def _sh_time():
    s = CUR
    if s is None:
        return REAL.time()
    t = s.clock
    if is_main() and not s.in_cb:
        s.after_call()
    return t


def _sh_sqlite_connect(*a, **kw):
    s = CUR
    if s is None or not is_main() or s.in_cb:
        return REAL.sqlite_connect(*a, **kw)
    s.kill_instant(None, "sqlite_connect", "call")
    c = REAL.sqlite_connect(*a, **kw)
    s.conns.append(c)
    s.kill_instant(None, "sqlite_connect", "ret")
    return c


def _sh_rmtree(path, ignore_errors=False, onerror=None, *a, **kw):
    """shutil.rmtree with one injectable fault: nothing below `path` can be removed (what a non-root user meets
    when the tree holds read-only directories - tar restores the modes of archived outputs)"""
    s = CUR
    if s is not None and is_main() and not s.in_cb and (s.op or {}).get("rmtree_fails") and os.path.isdir(path) \
            and os.listdir(path):
        s.count("fault.rmtree_cannot_remove_tree")
        s.emit("fs", "rmtree-failed", os.fspath(path)[len(s.root_s):])
        if ignore_errors:
            return None
        raise PermissionError(errno.EACCES, "Permission denied", os.fspath(path))
    return REAL_RMTREE(path, ignore_errors, onerror, *a, **kw)


REAL_RMTREE = shutil.rmtree


def _sh_exec(source, globals=None, locals=None, /, **kw):
    """builtins.exec: source text executed by the simulated program (COND files, include()d files, the standard
    library of task definitions) is user code that runs on the main thread like any other - it gets instants and
    check points too, so a signal or a kill can land while it is being evaluated"""
    s = CUR
    if globals is None:
        f = sys._getframe(1)
        globals = f.f_globals
        if locals is None:
            locals = f.f_locals
    if s is not None and is_main() and isinstance(source, (str, bytes)) and MONITOR.enabled:
        try:
            source = compile(source, "<cond>", "exec")
        except SyntaxError:
            return REAL_EXEC(source, globals, locals, **kw)      # let the real exec raise it the usual way
        seen = set()
        Monitor._codes_of(source, seen)
        E = MONITOR.E
        for c in seen:
            MONITOR.mon.set_local_events(MONITOR.TOOL, c, E.LINE | E.PY_START | E.CALL)
    if locals is None:
        return REAL_EXEC(source, globals, **kw)
    return REAL_EXEC(source, globals, locals, **kw)


import builtins as _builtins

REAL_EXEC = _builtins.exec


def _sh_cpu_count():
    s = CUR
    if s is None:
        return REAL.cpu_count()
    v = s.knobs.get("cpu_count", 4)
    if v <= 0:
        raise NotImplementedError("cannot determine number of cpus")
    return v


def _fs_logger(name, real, path_arg):
    def shim(*a, **kw):
        s = CUR
        if s is None or not is_main() or s.in_cb:
            return real(*a, **kw)
        try:
            p = os.fspath(a[path_arg])
            if not os.path.isabs(p):
                p = os.path.join(os.getcwd(), p)
            if p.startswith(s.root_s):
                s.emit("fs", name, p[len(s.root_s):])
        except Exception:
            pass
        s.kill_instant(None, name, "call")
        kf = getattr(s, "kill_fs", None)
        if kf is not None and kf.get("name") == name and (kf.get("match") or kf.get("exclude")):
            try:
                pth = os.fspath(a[path_arg])
            except Exception:
                pth = ""
            if (kf.get("match") and kf["match"] not in pth) or (kf.get("exclude") and kf["exclude"] in pth):
                kf = None       # this call is not one of the counted ones
        if kf is not None and kf.get("name") == name:
            s.fs_calls[name] = s.fs_calls.get(name, 0) + 1
            if s.fs_calls[name] == kf.get("n", 1) and kf.get("when") == "call":
                s.emit("KILLED", s.ki, "-", name, "fs-call")
                os._exit(137)
        try:
            return real(*a, **kw)
        finally:
            if kf is not None and kf.get("name") == name and s.fs_calls.get(name) == kf.get("n", 1) \
                    and kf.get("when") != "call":
                s.emit("KILLED", s.ki, "-", name, "fs-ret")
                os._exit(137)
            s.kill_instant(None, name, "ret")

    shim.__name__ = name
    return shim


_logged_mkdir = _fs_logger("mkdir", REAL.mkdir, 0)
_RE_TASK_OUT = re.compile(r"^(?:(.*)/)?([A-Za-z0-9_-]+)\.task(?:\.[0-9]+)?$")


def _sh_mkdir(*a, **kw):
    """os.mkdir with one injectable fault: creating a task's output directory fails (disk full)"""
    s = CUR
    if s is not None and is_main() and not s.in_cb:
        s.maybe_fail_mkdir(os.fspath(a[0]))
    return _logged_mkdir(*a, **kw)


class _FakeDatetimeMod_unused:
    """stands in for the `datetime` module inside conductor.cli.archive"""

    class datetime:
        @staticmethod
        def now(tz=None):
            import datetime as _dt

            s = CUR
            t = s.clock if s is not None else REAL.time()
            return _dt.datetime.fromtimestamp(t, _dt.timezone.utc).replace(tzinfo=None)

    def __getattr__(self, name):
        import datetime as _dt

        return getattr(_dt, name)


_INSTALLED = False
_PRISTINE = []     # (owner, attribute name, value) for simple conductor globals / class attributes
_PRISTINE_EMPTY = []   # (owner, attribute name, container type) for containers that are empty in a fresh process


def _record_pristine_state():
    """module-level and class-level attributes of conductor that hold None / bool / int / float / str:
    a fresh process starts with these values (singletons such as SigchldHelper._Instance, counters,
    flags), so every emulated process start restores them - whatever they are called"""
    simple = (type(None), bool, int, float, str)
    for name, mod in sorted(sys.modules.items()):
        if not (name == "conductor" or name.startswith("conductor.")) or mod is None:
            continue
        if "proto_gen" in name:
            continue
        for k, v in list(vars(mod).items()):
            if k.startswith("__"):
                continue
            if isinstance(v, simple):
                _PRISTINE.append((mod, k, v))
            elif isinstance(v, type) and getattr(v, "__module__", None) == name:
                for ck, cv in list(vars(v).items()):
                    if not ck.startswith("__") and isinstance(cv, simple):
                        _PRISTINE.append((v, ck, cv))
            elif str(getattr(type(v), "__module__", "")).split(".")[0] == "conductor" and hasattr(v, "__dict__") \
                    and not isinstance(v, (type, types.FunctionType, types.ModuleType)):
                # a module-level object of one of Conductor's own classes (a state holder such as an "abort
                # controller"): its simple attributes and its empty containers are part of the fresh-process state too
                for ck, cv in list(vars(v).items()):
                    if isinstance(cv, simple):
                        _PRISTINE.append((v, ck, cv))
                    elif isinstance(cv, (list, dict, set)) and not cv:
                        _PRISTINE_EMPTY.append((v, ck, type(cv)))


def restore_pristine_state():
    for owner, k, ctype in _PRISTINE_EMPTY:
        try:
            cur = getattr(owner, k, None)
            if isinstance(cur, ctype) and cur:
                cur.clear()
        except Exception:
            pass
    for owner, k, v in _PRISTINE:
        try:
            if getattr(owner, k, None) is not v and getattr(owner, k, None) != v:
                setattr(owner, k, v)
            elif type(getattr(owner, k, None)) is not type(v):
                setattr(owner, k, v)
        except Exception:
            pass


class _SimDateTimeMeta(type(__import__("datetime").datetime)):
    pass


def _make_sim_datetime():
    import datetime as _dt

    real = _dt.datetime

    class SimDateTime(real):
        """datetime.datetime whose now()/utcnow()/today() read the simulated clock inside an invocation"""

        @classmethod
        def now(cls, tz=None):
            s = CUR
            if s is None:
                return real.now(tz)
            t = real.fromtimestamp(s.clock, _dt.timezone.utc)
            return t.astimezone(tz) if tz is not None else t.replace(tzinfo=None)

        @classmethod
        def utcnow(cls):
            return cls.now()

        @classmethod
        def today(cls):
            return cls.now()

    SimDateTime.__name__ = "datetime"
    SimDateTime.__qualname__ = "datetime"
    return SimDateTime


def install():
    """Seams are put in place BEFORE conductor is imported, so that `from time import time`,
    `from os import waitpid`, `from concurrent.futures import ThreadPoolExecutor`,
    `from datetime import datetime` ... inside conductor bind the simulated versions just as
    `import time; time.time()` does."""
    global _INSTALLED
    if _INSTALLED:
        return
    if any(n == "conductor" or n.startswith("conductor.") for n in sys.modules):
        raise RuntimeError("conductor was imported before the simulator's seams were installed")
    import concurrent.futures.thread as _cft
    import datetime as _dt

    subprocess._fork_exec = _sh_fork_exec
    os.waitpid = _sh_waitpid
    d = list(subprocess.Popen._internal_poll.__defaults__)
    d[1] = _sh_waitpid
    subprocess.Popen._internal_poll.__defaults__ = tuple(d)
    if hasattr(subprocess, "_waitpid"):
        subprocess._waitpid = _sh_waitpid
    os.getpgid = _sh_getpgid
    os.killpg = _sh_killpg
    os.kill = _sh_kill
    signal.signal = _sh_signal
    signal.getsignal = _sh_getsignal
    signal.set_wakeup_fd = _sh_set_wakeup_fd
    signal.siginterrupt = _sh_siginterrupt
    signal.pthread_sigmask = _sh_pthread_sigmask
    os.read = _sh_read
    time.time = _sh_time
    sqlite3.connect = _sh_sqlite_connect
    multiprocessing.cpu_count = _sh_cpu_count
    os.mkdir = _sh_mkdir
    shutil.rmtree = _sh_rmtree
    _builtins.exec = _sh_exec
    os.symlink = _fs_logger("symlink", REAL.symlink, 1)
    os.unlink = _fs_logger("unlink", REAL.unlink, 0)
    concurrent.futures.ThreadPoolExecutor = _ExecutorSwitch
    _cft.ThreadPoolExecutor = _ExecutorSwitch
    threading.Thread = SimThread
    concurrent.futures.Future.result = _sh_future_result
    _dt.datetime = _make_sim_datetime()

    def _global_run(argv, *a, **kw):
        s = CUR
        try:
            is_git = (not isinstance(argv, str)) and len(argv) > 0 and os.path.basename(os.fspath(argv[0])) == "git"
        except Exception:
            is_git = False
        if s is not None and is_git and is_main() and s.git is not None and not s.knobs.get("real_git"):
            return s.git.run(list(argv), *a, **kw)
        return REAL.subprocess_run(argv, *a, **kw)

    subprocess.run = _global_run

    import conductor.__main__  # noqa: F401  (imports every cli module)

    _record_pristine_state()
    _INSTALLED = True


# ------------------------------------------------------------------------------------------
# the world


BASE_ENV = {"PATH": "/usr/bin:/bin", "HOME": "/nonexistent", "LANG": "C.UTF-8", "LC_ALL": "C.UTF-8"}


class Inv:
    """Everything observed about one `cond ...` invocation."""

    def __init__(self):
        self.argv = None
        self.cwd = None
        self.code = None
        self.out = b""
        self.err = b""
        self.trace = []
        self.spawns = []
        self.deadlock = None
        self.internal = None
        self.killed = False
        self.n = 0
        self.cp = 0
        self.cp_marks = []
        self.ki = 0
        self.sig_where = None
        self.sigdeath = None
        self.stdout_broken = False
        self.kill_where = None
        self.exit_hang = False
        self.plan = None
        self.t0 = 0.0
        self.t1 = 0.0
        self.uid = None

    def to_json(self):
        d = dict(self.__dict__)
        d["out"] = self.out.decode("utf-8", "replace")
        d["err"] = self.err.decode("utf-8", "replace")
        return d


class Sim:
    def __init__(self, root, scenario, seed, plans=None):
        self.root = pathlib.Path(root)
        self.root_s = str(self.root) + "/"
        self.scn = scenario
        self.knobs = scenario.get("knobs", {})
        self.seed = seed
        self.plans = plans  # {uid: plan} or None
        self.clock = float(scenario.get("epoch", 1_700_000_000))
        self.sim_seconds = 0.0
        self.git_state = json.loads(json.dumps(scenario.get("git", {"mode": "none"})))
        self.git = FakeGit(self.git_state)
        self.exec_count = {}  # task -> number of executions so far (whole history)
        self.inv_index = 0
        self.stats = {}
        self.stream = None
        # per-invocation state
        self._reset_inv()

    # -- per invocation -------------------------------------------------------------------
    def _reset_inv(self):
        self.procs = {}
        self.handlers = {}
        self.pending = set()
        self.trace = []
        self.spawns = []
        self.workers = []
        self.conns = []
        self.n = 0
        self.cp = 0
        self.cp_marks = []       # (check point number, +1 spawn / -1 reap): where processes are in flight
        self.ki = 0
        self.in_cb = 0
        self.next_async = 1 << 60
        self.sig_plan = None
        self.kill_at = None
        self.kill_mode = "syscall"
        self.sig_where = None
        self.main_done = False
        self.sched = None
        self.op = None
        self.next_pid = FAKE_BASE
        self.block_iters = 0
        self.plan_async_keys = None
        self.n_cap = 3_000_000
        self.real_fds = set()
        self.worker_by_ident = {}
        self.sig_seq = 0
        self.wakeup_fd = None
        self.registered = set()
        self.dead = None
        self.sa_restart = {}
        self.osink = None
        self.stall_cps = []
        self.blocked = set()
        self.blocked_pending = set()
        self.other_handlers = {}

    def count(self, key, k=1):
        self.stats[key] = self.stats.get(key, 0) + k

    def emit(self, *ev):
        self.trace.append(ev)
        if self.stream is not None:
            try:
                os.write(self.stream, (json.dumps(ev, default=str) + "\n").encode())
            except OSError:
                pass

    # -- kernel ---------------------------------------------------------------------------
    def maybe_fail_mkdir(self, p):
        if not (self.op or {}).get("scripts"):
            return
        if not os.path.isabs(p):
            p = os.path.join(os.getcwd(), p)
        pre = os.path.join(self.root_s, "cond-out") + "/"
        if not p.startswith(pre) or os.path.lexists(p):
            return
        m = _RE_TASK_OUT.match(p[len(pre):])
        if not m:
            return
        task = "//%s:%s" % (m.group(1) or "", m.group(2))
        if task not in self.op["scripts"]:
            return
        execno = sum(1 for sp in self.spawns if sp["task"] == task) + \
            sum(1 for e in self.trace if e[0] == "launchfail" and e[1] == task)
        if self.script_for(task, execno).get("launch") == "mkdir":
            self.emit("launchfail", task, "mkdir")
            self.count("fault.output_directory_creation_failure")
            raise OSError(errno.ENOSPC, os.strerror(errno.ENOSPC), p)

    def script_for(self, task, execno):
        sc = (self.op or {}).get("scripts", {})
        lst = sc.get(task)
        if lst is None:
            return DEFAULT_SCRIPT
        if isinstance(lst, dict):
            return lst
        if execno_idx_ok(lst, execno):
            return lst[execno] or DEFAULT_SCRIPT
        return lst[-1] if lst else DEFAULT_SCRIPT

    def k_fork_exec(self, args, executable_list, close_fds, fds_to_keep, cwd, env_list,
                    p2cread, p2cwrite, c2pread, c2pwrite, errread, errwrite,
                    errpipe_read, errpipe_write, restore_signals, call_setsid, pgid_to_set,
                    gid, gids, uid, umask, preexec_fn, use_vfork):
        argv = [a if isinstance(a, str) else os.fsdecode(a) for a in args]
        env = {}
        if env_list is not None:
            for e in env_list:
                k, _, v = os.fsdecode(e).partition("=")
                env[k] = v
        cmd = argv[2] if len(argv) > 2 else ""
        toks = cmd.split()
        task = toks[1] if len(toks) > 1 and toks[0] == "sim" else "?" + env.get("COND_NAME", "")
        if task.startswith("@") and cwd is not None:
            # an instance of a run_experiment_group (all instances share one run string)
            rel = os.path.relpath(os.fsdecode(cwd), str(self.root))
            task = "//%s:%s" % ("" if rel == "." else rel, env.get("COND_NAME", "?"))
        # per-invocation execution number of this task (0-based) decides the script
        execno = sum(1 for sp in self.spawns if sp["task"] == task) + \
            sum(1 for e in self.trace if e[0] == "launchfail" and e[1] == task)
        script = self.script_for(task, execno)
        launch = script.get("launch")
        cwd_s = os.fsdecode(cwd) if cwd is not None else None
        if launch in ("eagain", "enomem"):
            self.emit("launchfail", task, launch)
            self.count("fault.fork_failure")
            code = errno.EAGAIN if launch == "eagain" else errno.ENOMEM
            raise OSError(code, os.strerror(code))
        pid = self.next_pid
        self.next_pid += 1
        fds = {}
        kinds = {}
        for name, fd in (("out", c2pwrite), ("err", errwrite)):
            if fd != -1:
                nfd = os.dup(fd)
                st = os.fstat(nfd)
                import stat as _stat

                if _stat.S_ISFIFO(st.st_mode):
                    fl = fcntl.fcntl(nfd, fcntl.F_GETFL)
                    fcntl.fcntl(nfd, fcntl.F_SETFL, fl | os.O_NONBLOCK)
                    kinds[name] = "pipe"
                else:
                    kinds[name] = "file"
                fds[name] = nfd
            else:
                kinds[name] = "inherit"
        p = Proc(pid, task, execno, argv, cwd_s, env, fds, script)
        self.procs[pid] = p
        out_dir = env.get("COND_OUT")
        listing = None
        if out_dir is not None:
            try:
                listing = sorted(
                    (n, os.lstat(os.path.join(out_dir, n)).st_size) for n in os.listdir(out_dir))
            except OSError:
                listing = None
        running = sorted(q.name for q in self.procs.values() if q.state == "running" and q is not p
                         and not q.stray)
        sp = {
            "pid": pid, "task": task, "execno": execno, "argv": argv, "cwd": cwd_s, "env": env,
            "slot": env.get("COND_SLOT"), "io": kinds, "listing": listing, "n": self.n,
            "session": bool(call_setsid), "ti": len(self.trace), "running": running,
            "clock": self.clock, "executable": [os.fsdecode(x) for x in executable_list],
        }
        self.spawns.append(sp)
        self.emit("spawn", p.name, env.get("COND_SLOT"), call_setsid)
        self.cp_marks.append((self.cp, 1))
        if launch in ("exec", "chdir"):
            # the way _posixsubprocess reports a failing exec / chdir in the child
            self.count("fault.exec_failure")
            msg = b"OSError:%x:%s" % (errno.ENOENT, b"noexec" if launch == "chdir" else b"")
            os.write(errpipe_write, msg)
            self._finish_proc(p, 255 << 8, "execfail")
        elif script.get("instant_exit"):
            # child is already gone when Popen returns
            self.count("fault.exit_before_popen_returns")
            self.run_child_to_end(p)
        return pid

    def raise_signal(self, signum):
        """kernel side + CPython's C-level handler: the signal is marked tripped (its Python handler runs
        at the next check point of the main thread) and, if a wakeup fd is set, a byte is written to it"""
        if int(signum) in (int(signal.SIGINT), int(signal.SIGTERM)):
            h0 = self.handlers.get(int(signum))
            if h0 == signal.SIG_DFL or (h0 is None and int(signum) == int(signal.SIGTERM)):
                # kernel default action (the program set SIG_DFL itself, or never installed a handler for
                # SIGTERM): the process ends here and now - no handler, no clean-up, no exit hooks.  (An
                # untouched SIGINT is CPython's default_int_handler -> KeyboardInterrupt, see dispatch)
                self.dead = int(signum)
                self.emit("sigdeath", signal.Signals(int(signum)).name)
                self.count("reach.signal_met_default_disposition")
                raise SimSigDeath(signum)
        if int(signum) in self.blocked:
            # blocked in the thread's signal mask (inherited from the parent): it stays pending in the kernel -
            # no C-level handler, no wake-up byte - until somebody unblocks it
            self.blocked_pending.add(int(signum))
            self.count("reach.signal_held_back_by_the_inherited_signal_mask")
            return
        self.pending.add(int(signum))
        self.sig_seq += 1
        if (self.op or {}).get("stdout_gone_on_signal") and int(signum) in (int(signal.SIGINT), int(signal.SIGTERM)):
            self.stdout_gone = True
        fd = self.wakeup_fd
        h = self.handlers.get(int(signum), signal.SIG_DFL)
        if fd is not None and fd >= 0 and callable(h):
            try:
                os.write(fd, bytes([int(signum)]))
            except OSError:
                pass

    def _finish_proc(self, p, status, how):
        if p.detached:
            for fd in p.fds.values():
                try:
                    os.close(fd)
                except OSError:
                    pass
            p.fds = {}
            p.state = "reaped"
            self.emit("bgexit", p.name)
            return
        bg = p.script.get("bg")
        if bg and how in ("exit", "sig") and bg["stream"] in p.fds and self._is_pipe(p.fds[bg["stream"]]):
            # (only where Conductor itself sits at the other end of a pipe: with a log file handed to the
            # task, what a helper writes after the task's own process has exited is the task's business)
            # a background helper the task started keeps one of its streams open and goes on writing
            q = Proc(self.next_pid, p.task, p.execno, ["bg"], p.cwd, p.env, {bg["stream"]: p.fds.pop(bg["stream"])},
                     {"steps": list(bg["steps"]), "end": ["exit", 0]})
            self.next_pid += 1
            q.label = p.name + "~bg"
            q.stray = True
            q.detached = True
            q.group = p.pid
            self.procs[q.pid] = q
            self.emit("bgspawn", q.name, bg["stream"])
            self.count("fault.background_helper_keeps_stream_open")
        for fd in p.fds.values():
            try:
                os.close(fd)
            except OSError:
                pass
        p.fds = {}
        p.state = "zombie"
        p.status = status
        self.emit("exit", p.name, how, status)
        self.raise_signal(signal.SIGCHLD)

    @staticmethod
    def _is_pipe(fd):
        import stat as _stat

        try:
            return _stat.S_ISFIFO(os.fstat(fd).st_mode)
        except OSError:
            return False

    def child_enabled(self, p):
        if p.state != "running":
            return False
        if p.partial is not None:
            fd = p.fds.get(p.partial[0])
            if fd is None:
                return True
            return fd_writable(fd)
        return True

    def child_step(self, p):
        """one step of a stub child's script"""
        if p.state != "running":
            return
        if p.stopped is not None:
            # suspended (SIGSTOP / SIGTSTP from a user or a batch system): nothing happens until SIGCONT
            if p.stop_left > 0:
                p.stop_left -= 1
                return
            p.stopped = None
            p.stop_unreported = False
            self.emit("continued", p.name)
            if not p.detached and not p.stray:
                self.raise_signal(signal.SIGCHLD)      # CLD_CONTINUED (no SA_NOCLDSTOP in CPython's sigaction)
            return
        if p.term:
            if p.term_delay > 0:
                p.term_delay -= 1
            else:
                self._finish_proc(p, int(signal.SIGTERM), "sigterm")
                return
        sc = p.script
        steps = sc.get("steps", [])
        if p.partial is not None:
            stream, data = p.partial
            self._child_write(p, stream, data)
            return
        if p.ip < len(steps):
            st = steps[p.ip]
            p.ip += 1
            self._do_step(p, st, p.ip - 1)
            return
        end = sc.get("end", ["exit", 0])
        if end[0] == "exit":
            self._finish_proc(p, (end[1] & 0xFF) << 8, "exit")
        elif end[0] == "sig":
            self.count("fault.child_dies_by_signal")
            self._finish_proc(p, end[1] & 0x7F, "sig")
        elif end[0] == "hang":
            # runs until somebody signals it
            if p.term:
                self._finish_proc(p, int(signal.SIGTERM), "sigterm")

    def run_child_to_end(self, p):
        k = 0
        while p.state == "running" and k < 10000:
            if not self.child_enabled(p):
                break
            if p.script.get("end", ["exit"])[0] == "hang" and p.ip >= len(p.script.get("steps", [])) \
                    and not p.term:
                break
            self.child_step(p)
            k += 1

    def _child_write(self, p, stream, data):
        fd = p.fds.get(stream)
        if fd is None:
            p.partial = None
            return
        try:
            n = os.write(fd, data)
        except BlockingIOError:
            n = 0
        except BrokenPipeError:
            p.partial = None
            return
        if n:
            self.emit("cwrote", p.name, stream, n)
        if n < len(data):
            p.partial = (stream, data[n:])
            self.count("reach.child_blocked_on_full_pipe")
        else:
            p.partial = None

    def _do_step(self, p, st, idx):
        kind = st[0]
        tag = "%s.%d" % (p.name, idx)
        if kind in ("out", "err"):
            data = gen_bytes(st[1], tag + kind)
            self.emit("cwrite", p.name, kind, len(data))
            self._child_write(p, kind, data)
        elif kind == "file":
            base = p.env.get("COND_OUT")
            if base:
                path = os.path.join(base, st[1])
                os.makedirs(os.path.dirname(path), exist_ok=True)
                with open(path, "wb") as f:
                    f.write(gen_bytes(st[2], tag + "file"))
                self.emit("cfile", p.name, st[1])
        elif kind == "mkdir":
            base = p.env.get("COND_OUT")
            if base:
                os.makedirs(os.path.join(base, st[1]), exist_ok=True)
        elif kind == "symlink":
            base = p.env.get("COND_OUT")
            if base:
                path = os.path.join(base, st[1])
                os.makedirs(os.path.dirname(path), exist_ok=True)
                try:
                    REAL.symlink(st[2], path)
                except FileExistsError:
                    pass
        elif kind == "adv":
            self.clock += st[1]
            self.sim_seconds += abs(st[1])
            self.emit("adv", st[1])
        elif kind == "lib":
            self.emit("lib", p.name, self._eval_lib(p))
        elif kind == "nop":
            pass
        elif kind == "stop":
            p.stopped = int(st[1])
            p.stop_unreported = True
            p.stop_left = int(st[2]) if len(st) > 2 else 0
            self.emit("stopped", p.name, p.stopped)
            self.count("fault.child_stopped_by_job_control_signal")
            if not p.detached and not p.stray:
                self.raise_signal(signal.SIGCHLD)      # CLD_STOPPED

    def _eval_lib(self, p):
        """what conductor.lib reports inside the task (evaluated under the child's environment)"""
        import conductor.lib as clib

        saved = dict(os.environ)
        saved_cwd = os.getcwd()
        res = {}
        try:
            os.environ.clear()
            os.environ.update(p.env)
            if p.cwd:
                os.chdir(p.cwd)
            for name, fn in (("out", lambda: str(clib.get_output_path())),
                             ("deps", lambda: [str(x) for x in clib.get_deps_paths()]),
                             ("in_out", lambda: str(clib.in_output_dir("sub/f.txt")))):
                try:
                    res[name] = fn()
                except BaseException as ex:  # noqa
                    res[name] = "EXC:" + type(ex).__name__
        finally:
            os.environ.clear()
            os.environ.update(saved)
            os.chdir(saved_cwd)
        return res

    def k_waitpid(self, pid, flags):
        untraced = bool(flags & os.WUNTRACED)
        if pid == -1:
            for p in self.procs.values():
                if p.state == "zombie":
                    p.state = "reaped"
                    self.emit("reap", p.name, "any:" + sys._getframe(2).f_code.co_name)
                    self.cp_marks.append((self.cp, -1))
                    return p.pid, p.status
                if untraced and p.state == "running" and p.stopped is not None and p.stop_unreported:
                    # WUNTRACED: a stopped child is reported once; it is still there
                    p.stop_unreported = False
                    self.emit("stopreport", p.name)
                    return p.pid, (p.stopped << 8) | 0x7F
            if any(p.state == "running" for p in self.procs.values()):
                if not (flags & os.WNOHANG):
                    raise SimDeadlock("blocking waitpid(-1)")
                return 0, 0
            raise ChildProcessError(errno.ECHILD, "No child processes")
        p = self.procs.get(pid)
        if p is None or p.state == "reaped":
            raise ChildProcessError(errno.ECHILD, "No child processes")
        if p.state == "zombie":
            p.state = "reaped"
            self.emit("reap", p.name, "pid:" + sys._getframe(2).f_code.co_name)
            self.cp_marks.append((self.cp, -1))
            return pid, p.status
        if untraced and p.state == "running" and p.stopped is not None and p.stop_unreported:
            p.stop_unreported = False
            self.emit("stopreport", p.name)
            return pid, (p.stopped << 8) | 0x7F
        if not (flags & os.WNOHANG):
            # a blocking wait on one child: let the environment run until it exits
            self.block(lambda: p.state != "running", "waitpid")
            if p.state == "zombie":
                p.state = "reaped"
                self.emit("reap", p.name, "pid:" + sys._getframe(2).f_code.co_name)
                self.cp_marks.append((self.cp, -1))
                return pid, p.status
            raise ChildProcessError(errno.ECHILD, "No child processes")
        return 0, 0

    def k_getpgid(self, pid):
        p = self.procs.get(pid)
        if p is None or p.state == "reaped":
            raise ProcessLookupError(errno.ESRCH, "No such process")
        return pid

    def k_kill(self, pid, sig, group):
        p = self.procs.get(pid)
        if p is None or p.state == "reaped":
            raise ProcessLookupError(errno.ESRCH, "No such process")
        self.emit("kill", p.name, signal.Signals(sig).name, "group" if group else "pid", p.state)
        p.sigs.append(int(sig))
        if group:
            for q in self.procs.values():
                if q.detached and q.group == p.pid and q.state == "running" and sig in (signal.SIGTERM, signal.SIGKILL):
                    q.term = True
        if sig == signal.SIGTERM and p.state == "running":
            p.term = True
        elif sig == signal.SIGKILL and p.state == "running":
            self._finish_proc(p, int(signal.SIGKILL), "sigkill")

    # -- instants, check points, blocking points ---------------------------------------------
    def enabled_actions(self):
        acts = []
        for p in self.procs.values():
            if p.state == "running" and self.child_enabled(p):
                if p.script.get("end", ["exit"])[0] == "hang" and \
                        p.ip >= len(p.script.get("steps", [])) and not p.term and p.partial is None:
                    continue
                acts.append("c:" + p.name)
        sk = getattr(self, "osink", None)
        if sk is not None and sk.waiting and not sk.released and not acts:
            # adversarial reader: it resumes only when nothing else can happen any more (every task has run as
            # far as it gets on its own) - whatever Conductor does before that cannot have depended on it
            acts.append("r:stdout")
        if self.workers:
            active = {}
            for w in self.workers:
                if w.state in ("parked", "running"):
                    active[id(w.executor)] = active.get(id(w.executor), 0) + 1
            started_queue = set()
            for w in self.workers:
                if w.state == "queued":
                    # FIFO start order per executor
                    if id(w.executor) in started_queue:
                        continue
                    started_queue.add(id(w.executor))
                if w.enabled(active.get(id(w.executor), 0)):
                    acts.append("w:%d" % w.idx)
        return acts

    def perform(self, a):
        self.emit("act", a)
        if a[0] == "c":
            name = a[2:]
            for p in self.procs.values():
                if p.name == name:
                    if p.state == "running" and self.child_enabled(p):
                        self.child_step(p)
                    return
        elif a == "r:stdout":
            self.osink.released = True
            self.emit("stdout-released")
        elif a[0] == "w":
            i = int(a[2:])
            if i < len(self.workers):
                w = self.workers[i]
                active = sum(1 for x in self.workers
                             if x.executor is w.executor and x.state in ("parked", "running"))
                if w.enabled(active):
                    w.step()

    def on_instant(self):
        if self.dead is not None:
            return
        self.n += 1
        n = self.n
        if n >= self.next_async:
            todo = self.sched.at_instant(n, self.enabled_actions)
            for a in todo:
                self.count("async_events")
                self.perform(a)
            if self.plan_async_keys is not None:
                self.next_async = next((k for k in self.plan_async_keys if k > n), 1 << 60)
            else:
                self.next_async = n + self.sched.gap()
        if n > self.n_cap:
            raise SimLimit("instant cap exceeded")

    def kill_instant(self, code, fn, kind):
        if self.dead is not None:
            return
        self.ki += 1
        if self.kill_at is not None and self.ki == self.kill_at:
            self.emit("KILLED", self.ki, code.co_name if code is not None else "-",
                      fn if isinstance(fn, str) else getattr(fn, "__name__", "?"), kind)
            os._exit(137)

    def after_call(self):
        """exit of a simulator shim called by the program == the check after that CALL"""
        if self.in_cb:
            return
        self.on_instant()
        self.checkpoint(None, "shim")

    def checkpoint(self, code, what):
        if self.dead is not None:
            return
        if int(signal.SIGTERM) in self.registered:
            self.cp += 1
            if code is not None and code.co_filename == "<cond>":
                self.stall_cps.append(self.cp)      # (check points inside user code: sampled densely as well)
            sp = self.sig_plan
            if sp is not None and self.cp == sp[0]:
                self.sig_plan = None
                where = what
                if code is not None:
                    where = "%s:%s:%s" % (os.path.basename(code.co_filename), code.co_name, what)
                else:
                    f = sys._getframe(2)
                    # nearest monitored caller
                    while f is not None and "/cverif/" in f.f_code.co_filename:
                        f = f.f_back
                    if f is not None:
                        where = "%s:%s:after-%s" % (os.path.basename(f.f_code.co_filename),
                                                    f.f_code.co_name, sys._getframe(2).f_code.co_name)
                live = sorted(p.name for p in self.procs.values() if p.state == "running" and not p.stray)
                self._signal_fired(sp, where, live)
        if self.pending:
            self.dispatch()

    def _signal_fired(self, sp, where, live):
        first = self.sig_where is None
        if first:
            self.sig_where = where
        in_del = self._in_destructor()
        self.emit("sigsent" if first else "sigsent_again", sp[1], self.cp, where, live, in_del)
        self.count("fault.SIG" + sp[1] if first else "fault.second_signal_SIG" + sp[1])
        if self.sig_then:
            d, nm = self.sig_then.pop(0)
            self.sig_plan = (self.cp + max(1, d), nm)
        self.raise_signal(getattr(signal, "SIG" + sp[1]))

    @staticmethod
    def _in_destructor():
        """is the main thread currently inside a __del__ (where CPython discards exceptions)?"""
        f = sys._getframe(1)
        while f is not None:
            if f.f_code.co_name == "__del__":
                return True
            f = f.f_back
        return False

    def dispatch(self):
        while self.pending:
            signum = min(self.pending)
            self.pending.discard(signum)
            h = self.handlers.get(signum, signal.SIG_DFL)
            if callable(h):
                self.emit("handler", signal.Signals(signum).name, "cb" if self.in_cb else "direct")
                # like CPython, hand the handler the frame that was interrupted (the innermost frame that
                # is not part of the simulator)
                f = sys._getframe(1)
                while f is not None and f.f_code.co_filename == __file__:
                    f = f.f_back
                h(signum, f)
            elif signum == signal.SIGINT and h == signal.SIG_DFL and int(signal.SIGINT) not in self.handlers:
                raise KeyboardInterrupt()
            # SIGCHLD with default disposition is discarded

    def block(self, ready, why):
        """a blocking point of the main thread"""
        if self.in_cb:
            # blocking inside a handler that runs inside a monitoring callback: environment is
            # frozen there, so only worker/child progress can unblock; run it directly
            pass
        self.emit("blk", why)
        # A signal whose C-level handler already ran (after the last check point, before this call
        # started blocking) does not interrupt the call: CPython runs Python-level handlers on EINTR
        # only, i.e. for signals that arrive while the thread is blocked.
        seen_seq = self.sig_seq
        if self.pending:
            self.count("reach.signal_tripped_between_last_check_point_and_blocking_call")
        while True:
            if int(signal.SIGTERM) in self.registered:
                self.cp += 1
                if why == "stdout-stalled":
                    self.stall_cps.append(self.cp)
                sp = self.sig_plan
                if sp is not None and self.cp == sp[0]:
                    self.sig_plan = None
                    live = sorted(p.name for p in self.procs.values()
                                  if p.state == "running" and not p.stray)
                    self._signal_fired(sp, "block:" + why, live)
            if self.pending and not self.in_cb and self.sig_seq != seen_seq:
                seen_seq = self.sig_seq
                if any(not self.sa_restart.get(sg) for sg in self.pending):
                    # (a handler installed with SA_RESTART does not interrupt the call: the kernel restarts it and
                    # the Python-level handler stays pending until the call is over)
                    self.dispatch()
                elif not ready():
                    self.emit("restarted-call-holds-signal", why, sorted(self.pending))
            if ready():
                return
            acts = self.enabled_actions()
            if not acts:
                self.emit("DEADLOCK", why, sorted(self.pending))
                raise SimDeadlock(why + (" with-undelivered-signal" if self.pending else ""))
            for a in self.sched.at_block(acts):
                self.perform(a)
            self.block_iters += 1
            if self.block_iters > 200000:
                raise SimLimit("block iteration cap exceeded")

    # -- invocation ---------------------------------------------------------------------------
    def run_cond(self, op):
        """Execute one `cond` invocation in this process.  op = {"argv": [...], "cwd": rel,
        "env": {...}, "scripts": {...}, "signal": {"sig": "INT", "cp": k}, "kill": k, "uid": str}"""
        global CUR
        import conductor.__main__ as cmain

        install()
        self._reset_inv()
        self.op = op
        inv = Inv()
        inv.uid = op.get("uid", str(self.inv_index))
        inv.argv = list(op["argv"])
        inv.cwd = op.get("cwd", "")
        self.next_pid = FAKE_BASE + 1000 * self.inv_index
        sub_seed = int.from_bytes(
            hashlib.sha256(("%d/%s" % (self.seed, inv.uid)).encode()).digest()[:8], "big")
        plan = None
        if self.plans is not None:
            plan = self.plans.get(inv.uid) or {"async": {}, "block": []}
        self.sched = Sched(sub_seed, self.knobs, plan)
        self.plan_async_keys = sorted(int(k) for k in plan.get("async", {})) if plan is not None else None
        if plan is not None:
            self.next_async = self.plan_async_keys[0] if self.plan_async_keys else 1 << 60
        else:
            self.next_async = self.sched.gap()
        self.n_cap = self.knobs.get("n_cap", 3_000_000)
        sg = op.get("signal")
        self.sig_then = []
        if sg:
            self.sig_plan = (int(sg["cp"]), sg["sig"])
            # further signals of the same invocation: [{"sig": "INT", "after": d}] - d check points after the
            # previous one (an impatient second Ctrl-C, a batch system that repeats its SIGTERM)
            self.sig_then = [(int(t["after"]), t["sig"]) for t in sg.get("then", [])]
        for nm in op.get("sig_blocked", []):
            # signal mask inherited from the parent (a supervisor that waits for its children with sigwait /
            # signalfd blocks SIGCHLD and may not reset the mask before exec)
            self.blocked.add(int(getattr(signal, "SIG" + nm)))
            self.count("fault.SIG%s_blocked_in_inherited_mask" % nm)
        for nm in op.get("sig_ign", []):
            # dispositions inherited from the parent (a non-interactive shell starts background jobs
            # with SIGINT ignored)
            self.handlers[int(getattr(signal, "SIG" + nm))] = signal.SIG_IGN
        self.kill_at = op.get("kill")
        # directed crash point: right before / after the n-th call of one file-system primitive (symlink, mkdir,
        # unlink) - the instants at which a half-made directory entry exists
        self.kill_fs = op.get("kill_fs")
        self.fs_calls = {}
        self.stdout_gone = False
        # SIGCHLD inherited as ignored matters for the REAL helper processes (tar): the kernel then reaps
        # them itself and waitpid() answers ECHILD
        real_chld = None
        self.real_chld_fault = False
        if "CHLD" in op.get("sig_ign", []):
            real_chld = REAL.signal(signal.SIGCHLD, signal.SIG_IGN)
            self.real_chld_fault = True
            self.count("fault.SIGCHLD_inherited_as_ignored")

        MONITOR.set_enabled(bool(self.knobs.get("mon", True)))

        # --- process start
        saved_env = dict(os.environ)
        saved_cwd = os.getcwd()
        saved_argv = sys.argv
        saved_out, saved_err = sys.stdout, sys.stderr
        os.environ.clear()
        os.environ.update(BASE_ENV)
        os.environ.update(op.get("env", {}))
        os.chdir(self.root / inv.cwd)
        if op.get("via_symlink"):
            # the user came here through a symbolic link to the project (cd ~/plink/pkg): the working directory is
            # the same directory, the shell's $PWD holds the logical path (seeded change C17g-1: root searched from $PWD)
            link = self.root.parent / "plink"
            if not link.is_symlink():
                os.symlink(self.root.name, link)
            os.environ["PWD"] = os.path.normpath(str(link / inv.cwd))
            self.count("reach.cwd_entered_through_symlink_with_logical_PWD")
        sys.argv = ["cond"] + inv.argv
        own = op.get("own_stdout") or {}
        # own stdout: a terminal (line buffered) or a pipe (block buffered, as CPython does it); the reader of
        # the pipe may go away after a number of bytes (`cond run ... | head`): EPIPE from then on
        osink, esink = Sink(own.get("gone_after"), own.get("stall_at")), Sink()
        osink.patience = int(own.get("stall_len", 0))
        self.osink = osink
        sys.stdout = OutText(io.BufferedWriter(osink), encoding="utf-8", errors="strict",
                             line_buffering=own.get("mode", "tty") != "pipe")
        sys.stderr = ErrText(io.BufferedWriter(esink), encoding="utf-8", errors="backslashreplace",
                             line_buffering=True)
        subprocess._active.clear()
        restore_pristine_state()      # module-level / class-level state of a fresh process
        gc_was = gc.isenabled()
        gc.disable()
        inv.t0 = self.clock
        self.emit("begin", inv.argv, inv.cwd)
        for k in range(int(op.get("stray", 0) or 0)):
            # an unrelated child of the cond process (never registered with the executor)
            sp = Proc(self.next_pid, "stray", k, ["stray"], None, {}, {}, DEFAULT_SCRIPT)
            sp.stray = True
            self.next_pid += 1
            self.procs[sp.pid] = sp
            self.emit("strayspawn", sp.name)
            self.count("fault.stray_child")
        CUR = self
        try:
            try:
                try:
                    cmain.main()
                    inv.code = 0
                except SystemExit as e:
                    c = e.code
                    inv.code = c if isinstance(c, int) else (0 if c is None else 1)
                    e = None
                # frames of the command are released here: destructors (OutputHandler.__del__,
                # Popen.__del__) run now, still inside the simulated process
                self.main_done = True
                self.emit("main_done", inv.code)
                self._exit_process(inv)
            except SimDeadlock as e:
                inv.deadlock = str(e)
                inv.code = None
                e = None
            except SimSigDeath as e:
                # no exit hooks run: tee threads vanish with the process (abandoned below)
                inv.sigdeath = signal.Signals(e.signum).name
                inv.code = -e.signum
                self.main_done = True
                self.emit("main_done", inv.code)
                e = None
            except SimLimit:
                raise
            except KeyboardInterrupt:
                inv.internal = ("KeyboardInterrupt", "")
                inv.code = 130
            except BaseException as e:  # noqa: an exception Conductor let escape == a traceback
                tb = traceback.extract_tb(e.__traceback__)
                frames = [fr for fr in tb if "/conductor/" in fr.filename]
                last = frames[-1] if frames else (tb[-1] if tb else None)
                where = "%s:%s" % (os.path.basename(last.filename), last.name) if last else "?"
                inv.internal = (type(e).__name__, where, str(e)[:200],
                                "".join(traceback.format_exception(e))[-1500:])
                inv.code = 1
                e = None
            if not self.main_done:
                self.main_done = True
                self.emit("main_done", inv.code)
                try:
                    self._exit_process(inv)
                except SimDeadlock:
                    pass
        finally:
            # --- process exit
            try:
                self._abandon_workers(inv)
            finally:
                CUR = None
            for s_ in (sys.stdout, sys.stderr):
                try:
                    s_.flush()
                except Exception:
                    pass
            sys.stdout, sys.stderr = saved_out, saved_err
            for c in self.conns:
                try:
                    c.close()
                except Exception:
                    pass
            self.conns = []
            for p in self.procs.values():
                for fd in p.fds.values():
                    try:
                        os.close(fd)
                    except OSError:
                        pass
                p.fds = {}
            restore_pristine_state()
            subprocess._active.clear()
            if real_chld is not None:
                REAL.signal(signal.SIGCHLD, real_chld)
                self.real_chld_fault = False
            sys.argv = saved_argv
            os.chdir(saved_cwd)
            os.environ.clear()
            os.environ.update(saved_env)
            # only objects allocated during the invocation are young (gc was off meanwhile)
            gc.collect(0)
            if gc_was:
                gc.enable()
        inv.stdout_broken = bool(osink.broken)      # some write to the own stdout met EPIPE (also the flush at exit)
        inv.out = bytes(osink.data)
        inv.err = bytes(esink.data)
        inv.trace = self.trace
        inv.spawns = self.spawns
        inv.n, inv.cp, inv.ki = self.n, self.cp, self.ki
        inv.cp_marks = list(self.cp_marks)
        inv.stall_cps = list(self.stall_cps)
        inv.sig_where = self.sig_where
        inv.plan = self.sched.recorded()
        inv.t1 = self.clock
        inv.procs = {p.name: (p.state, p.status, list(p.sigs), p.term) for p in self.procs.values()}
        self.inv_index += 1
        self.count("invocations")
        self.count("instants", inv.n)
        return inv

    def _exit_process(self, inv):
        """emulates interpreter shutdown: tee threads are joined (concurrent.futures' atexit hook),
        which needs the children to finish; children are not signalled by that."""
        guard = 0
        while any(w.state != "done" and not w.daemon for w in self.workers):
            acts = self.enabled_actions()
            if not acts:
                inv.exit_hang = True
                self.emit("EXITHANG")
                break
            for a in self.sched.at_block(acts):
                self.perform(a)
            guard += 1
            if guard > 200000:
                raise SimLimit("exit drain cap exceeded")

    def _abandon_workers(self, inv):
        for w in self.workers:
            if w.state != "done":
                w.abandon = True
                # unblock a parked worker so that its thread can end
                w.go.release()
        for w in self.workers:
            w.thread.join(timeout=5)
        # process exit closes every descriptor
        for w in self.workers:
            for a in (w.args or ()):
                if isinstance(a, PipeProxy):
                    try:
                        a._f.close()
                    except Exception:
                        pass
            w.args = None
            w.fn = None
        self.workers = []
        self.worker_by_ident = {}


def execno_idx_ok(lst, i):
    return isinstance(lst, list) and 0 <= i < len(lst)


# ------------------------------------------------------------------------------------------
# disk observation helpers (used by the history runner and the oracles)


def read_rows(root):
    p = pathlib.Path(root) / "cond-out" / "version_index.sqlite"
    if not p.exists():
        return None
    c = REAL.sqlite_connect("file:%s?mode=ro" % p, uri=True)
    try:
        try:
            rows = c.execute(
                "select task_identifier, timestamp, git_commit_hash, has_uncommitted_changes "
                "from version_index").fetchall()
        except sqlite3.OperationalError as ex:
            try:
                # format 1 (before the upgrade): no commit / dirty columns
                rows = [(r[0], r[1], None, 0) for r in
                        c.execute("select task_identifier, timestamp from version_index").fetchall()]
            except sqlite3.OperationalError:
                return "BROKEN:" + str(ex)
        return sorted((r[0], r[1], r[2], int(r[3])) for r in rows)
    finally:
        c.close()


def tree_of(path):
    """{relpath: ("d",) | ("f", sha1, size) | ("l", target)} for everything below path"""
    out = {}
    base = str(path)
    if not os.path.isdir(base):
        return out
    for dirpath, dirnames, filenames in os.walk(base, followlinks=False):
        rel = os.path.relpath(dirpath, base)
        for d in list(dirnames):
            full = os.path.join(dirpath, d)
            r = os.path.normpath(os.path.join(rel, d))
            if os.path.islink(full):
                out[r] = ("l", os.readlink(full))
                dirnames.remove(d)
            else:
                out[r] = ("d",)
        for f in filenames:
            full = os.path.join(dirpath, f)
            r = os.path.normpath(os.path.join(rel, f))
            if os.path.islink(full):
                out[r] = ("l", os.readlink(full))
            else:
                try:
                    with open(full, "rb") as fh:
                        data = fh.read()
                    if f.endswith((".sqlite", ".sqlite-journal", ".sqlite-wal", ".sqlite-shm")):
                        # page contents carry random nonces / change counters; rows are compared separately
                        out[r] = ("f", "<sqlite>", -1)
                    elif f.startswith("cond-archive+") and f.endswith(".tar.gz"):
                        # gzip/tar headers carry real wall-clock times: not part of the simulated state
                        out[r] = ("f", "<archive>", -1)
                    elif f in ("args.json", "options.json") and len(data) < 100000:
                        out[r] = ("f", hashlib.sha1(data).hexdigest(), len(data), data.decode("utf-8", "replace"))
                    else:
                        out[r] = ("f", hashlib.sha1(data).hexdigest(), len(data))
                except OSError as ex:
                    out[r] = ("f", "ERR:" + str(ex.errno), -1)
    return out


def snapshot(root):
    root = pathlib.Path(root)
    snap = {"rows": read_rows(root), "tree": tree_of(root / "cond-out")}
    outside = root.parent / "outside"
    if outside.is_dir():
        snap["outside"] = tree_of(outside)
    reloc = str(root.parent / "relocated") + os.sep
    moved = {r: tree_of(v[1]) for r, v in snap["tree"].items() if v[0] == "l" and str(v[1]).startswith(reloc)}
    if moved:
        # outputs that were moved to another volume by hand (a symbolic link took their place)
        snap["relocated"] = moved
        # which of the symbolic links in (or behind) cond-out do not resolve - judged physically, the way a reader
        # of the outputs meets them
        co = str(root / "cond-out")
        dang = set()
        for r_, v_ in snap["tree"].items():
            if v_[0] == "l" and not os.path.exists(os.path.join(co, r_)):
                dang.add(r_)
        for r_, sub in moved.items():
            base = snap["tree"][r_][1]
            for q_, v_ in sub.items():
                if v_[0] == "l" and not os.path.exists(os.path.join(base, q_)):
                    dang.add(r_ + "/" + q_)
        snap["dangling"] = sorted(dang)
    return snap
