"""Driver:  check <PROP> --tier quick|thorough [--seed N] [--replay FILE] [--count N] [--budget S]

exit 0  property held on everything explored (KNOWN-FINDING lines are allowed)
exit 1  violation (a line `VIOLATION property=<id> replay=<path>` per distinct signature)
exit 2  harness error (exception in the simulator, replay divergence, worker timeout)
"""
import argparse
import faulthandler
import gc
import hashlib
import json
import os
import pathlib
import random
import subprocess
import sys
import time
import traceback

HERE = pathlib.Path(__file__).resolve().parent
VERIF = HERE.parent
if str(VERIF) not in sys.path:
    sys.path.insert(0, str(VERIF))
if os.environ.get("CVERIF_SRC"):
    # sensitivity runs: a scratch copy of /repo/src with a mutation applied
    sys.path.insert(0, os.environ["CVERIF_SRC"])

from cverif import sim, runner, oracles, profiles, props  # noqa: E402

REAL_TIME = sim.REAL.time


def seed_for(base, prop, i):
    h = hashlib.sha256(("%d/%s/%d" % (base, prop, i)).encode()).digest()
    return int.from_bytes(h[:6], "big")


# ------------------------------------------------------------------------------------------
# one scenario


def abstract_digest(run):
    h = hashlib.sha1()
    for st in run.steps:
        inv = st.inv
        if inv is None:
            h.update(b"|" + st.op["op"].encode())
            continue
        h.update(b"|inv%r" % (inv.code,))
        for e in inv.trace:
            if e[0] in ("spawn", "exit", "reap", "handler", "sigsent", "kill", "launchfail", "DEADLOCK",
                        "KILLED", "teeread", "cwrite"):
                h.update(repr(e[:4]).encode())
    return h.hexdigest()[:16]


import re as _re

_ADDR = _re.compile(r"0x[0-9a-fA-F]{6,}")
_ADDRB = _re.compile(rb"0x[0-9a-fA-F]{6,}")


def full_digest(run):
    """byte-exact event log digest used by the determinism self-test"""
    h = hashlib.sha1()
    for st in run.steps:
        inv = st.inv
        if inv is None:
            continue
        root = str(run.work)
        # object addresses show up in "Exception ignored in: <function ... at 0x...>" messages
        h.update(_ADDR.sub("0xADDR", json.dumps([list(map(str, e)) for e in inv.trace]).replace(root, "$ROOT")).encode())
        h.update(_ADDRB.sub(b"0xADDR", inv.out.replace(root.encode(), b"$ROOT")))
        h.update(_ADDRB.sub(b"0xADDR", inv.err.replace(root.encode(), b"$ROOT")))
        h.update(repr((inv.code, inv.n, inv.cp, inv.ki)).encode())
        if st.after is not None:
            h.update(json.dumps(st.after, sort_keys=True, default=str).replace(root, "$ROOT").encode())
    return h.hexdigest()


def shape_key(scn):
    t = scn["tasks"]
    ids = list(t)
    edges = sorted((ids.index(a), ids.index(b)) for a in ids for b in t[a]["deps"])
    kinds = "".join(t[a]["kind"][0] + ("p" if t[a].get("par") else "") for a in ids)
    ops = ",".join(o["op"] + "".join(sorted(k[0] for k, v in o.get("flags", {}).items() if v))
                   for o in scn["history"])
    return hashlib.sha1(repr((edges, kinds, ops)).encode()).hexdigest()[:12]


def run_scenario(prop, scn, seed, plans=None, want_sample=False):
    P = props.PROPS[prop]
    t0 = REAL_TIME()
    run = P.execute(scn, seed, plans)
    try:
        V, facts = P.check(run)
    finally:
        runner._safe_rmtree(run.work)
        for w in getattr(run, "extra_work", []):
            runner._safe_rmtree(w)
    res = {
        "seed": seed,
        "violations": [v.to_json() for v in V],
        "nontrivial": bool(facts.get("nontrivial")),
        "ntkeys": sorted(set(facts.get("nontrivial", [])))[:6],
        "reach": facts.get("reach", {}),
        "stats": run.stats,
        "digest": abstract_digest(run),
        "full": full_digest(run),
        "shape": shape_key(scn),
        "sim_seconds": run.sim_seconds,
        "wall": REAL_TIME() - t0,
        "extra_evals": facts.get("evaluations", 0),
        "enum_info": facts.get("enum_info"),
    }
    if V or want_sample:
        res["scn"] = scn
        res["plans"] = {st.inv.uid: st.inv.plan for st in run.steps
                        if st.inv is not None and st.inv.plan is not None}
    if want_sample:
        res["sample"] = sample_of(scn, run)
    return res


def sample_of(scn, run):
    out = {"tasks": {t: {"kind": d["kind"], "deps": d["deps"], "par": d.get("par", False)}
                     for t, d in scn["tasks"].items()}, "history": []}
    for st in run.steps:
        h = {"op": st.op["op"], "flags": st.op.get("flags"), "target": st.op.get("target"),
             "cwd": st.op.get("cwd", "")}
        if st.inv is not None:
            h["exit"] = st.inv.code
            h["trace"] = [list(map(str, e)) for e in st.inv.trace
                          if e[0] in ("spawn", "exit", "reap", "handler", "kill", "sigsent", "launchfail",
                                      "KILLED", "DEADLOCK")][:40]
        out["history"].append(h)
    return out


# ------------------------------------------------------------------------------------------
# worker process


WARMED = False


def warmup():
    """fixed history touching every subcommand, so that lazy imports and caches are populated before
    the first seeded run (DESIGN.md section 6)"""
    global WARMED
    if WARMED:
        return
    WARMED = True
    r = random.Random(12345)
    from cverif import scenario as S

    tasks = S.gen_graph(r, 5, {"exp": 3, "cmd": 1, "group": 1, "combine": 1}, ["", "p"])
    scn = {"epoch": 1_700_000_000, "tasks": tasks, "pkgs": ["", "p"], "git": {"mode": "none"},
           "disable_git": True, "knobs": {"mon": True, "p_async": 0.01, "p_burst": 0.2}, "history": []}
    tgt = list(tasks)[-1]
    exp = [t for t, d in tasks.items() if d["kind"] == "exp"][0]
    scn["history"] = [
        {"op": "run", "target": tgt, "flags": {"jobs": 2}},
        {"op": "run", "target": tgt, "flags": {"again": True}, "gap": 5.0,
         "scripts": {exp: [{"steps": [["out", {"k": "txt", "n": 20, "seed": 1}]], "end": ["exit", 3]}]}},
        {"op": "where", "target": exp},
        {"op": "gc", "flags": {"dry": True}},
        {"op": "gc", "flags": {"verbose": True}},
        {"op": "archive", "out": "w0"},
        {"op": "clean"},
        {"op": "restore", "archive": "w0"},
        {"op": "run", "target": tgt, "flags": {}, "signal": {"sig": "INT", "cp": 900}},
        {"op": "clean"},
    ]
    for mon in (True, False):
        scn["knobs"]["mon"] = mon
        runner.execute(scn, 1)
    sim.MONITOR.set_enabled(True)
    gc.collect()
    gc.freeze()


def worker_main(a):
    import resource

    try:
        soft, hard = resource.getrlimit(resource.RLIMIT_NOFILE)
        resource.setrlimit(resource.RLIMIT_NOFILE, (min(hard, 65536) if hard != resource.RLIM_INFINITY else 65536, hard))
    except Exception:
        pass
    prop = a.prop
    P = props.PROPS[prop]
    out = open(a.out, "w")
    warmup()
    t_end = REAL_TIME() + a.budget if a.budget else None
    i = a.worker
    done = 0
    samples_left = 1 if a.worker == 0 else 0
    only = [int(x) for x in a.only.split(",") if x] if getattr(a, "only", "") else None
    if only:
        i = only.pop(0)
    while i < a.count:
        if t_end is not None and REAL_TIME() > t_end:
            break
        seed = seed_for(a.seed, prop, i)
        faulthandler.dump_traceback_later(a.scenario_timeout, exit=True)
        try:
            r = random.Random(seed)
            scn = P.gen(r)
            res = run_scenario(prop, scn, seed, want_sample=(samples_left > 0 and done >= 2))
            if "sample" in res:
                samples_left -= 1
            if a.twice and done % a.twice == 0:
                res2 = run_scenario(prop, scn, seed)
                res["rerun_same"] = (res2["full"] == res["full"])
            res["i"] = i
        except BaseException as ex:  # noqa
            res = {"i": i, "seed": seed, "harness_error": "".join(traceback.format_exception(ex))[-3000:]}
        finally:
            faulthandler.cancel_dump_traceback_later()
        out.write(json.dumps(res, default=str) + "\n")
        out.flush()
        if only is not None:
            if not only:
                break
            i = only.pop(0)
        else:
            i += a.of
        done += 1
        if done % 20 == 0:
            gc.collect()        # reference cycles of finished scenarios (and the descriptors they hold)
    out.write(json.dumps({"worker_done": a.worker, "n": done}) + "\n")
    out.close()


# ------------------------------------------------------------------------------------------
# known findings


def load_known():
    p = VERIF / "known_findings.json"
    if not p.exists():
        return {"open": [], "fixed": []}
    return json.loads(p.read_text())


def match_known(known, prop, signature):
    for k in known.get("open", []):
        if k["property"] == prop and signature.startswith(k["signature"]):
            return k
    return None


# ------------------------------------------------------------------------------------------
# parent


def main():
    ap = argparse.ArgumentParser()
    ap.add_argument("prop")
    ap.add_argument("--tier", default=os.environ.get("VERIF_TIER", "quick"))
    ap.add_argument("--seed", type=int, default=int(os.environ.get("VERIF_SEED", "0")))
    ap.add_argument("--replay")
    ap.add_argument("--count", type=int)
    ap.add_argument("--budget", type=float)
    ap.add_argument("--workers", type=int, default=int(os.environ.get("VERIF_WORKERS", "0")) or min(16, os.cpu_count() or 4))
    ap.add_argument("--worker", type=int)
    ap.add_argument("--of", type=int)
    ap.add_argument("--out")
    ap.add_argument("--twice", type=int, default=0)
    ap.add_argument("--scenario-timeout", type=float, default=None)
    ap.add_argument("--no-evidence", action="store_true")
    ap.add_argument("--no-shrink", action="store_true")
    ap.add_argument("--no-selftest", action="store_true")
    ap.add_argument("--only", default="")
    a = ap.parse_args()
    if a.scenario_timeout is None:
        # a hang detector, not a budget: exhaustive enumerations of the thorough tier take minutes per
        # scenario on a loaded machine
        a.scenario_timeout = 300.0 if a.tier == "quick" else 1800.0
    if a.prop not in props.PROPS:
        print("unknown property", a.prop)
        sys.exit(2)
    if a.worker is not None:
        worker_main(a)
        return
    if a.replay:
        sys.exit(replay_main(a))
    sys.exit(check_main(a))


def check_main(a):
    prop = a.prop
    P = props.PROPS[prop]
    tier = a.tier
    t0 = REAL_TIME()
    print("VERIF_SEED=%d property=%s tier=%s" % (a.seed, prop, tier))
    count = a.count or (P.quick_count if tier == "quick" else 10**9)
    budget = a.budget
    if budget is None:
        budget = P.quick_budget if tier == "quick" else float(os.environ.get("VERIF_BUDGET_S", P.thorough_budget))
    results = []
    herrors = []
    # 1. corpus: minimised scenarios of every violation ever found
    corpus_dir = VERIF / "corpus" / prop
    corpus_results = []
    if corpus_dir.is_dir():
        warm = False
        for f in sorted(corpus_dir.glob("*.json")):
            if not warm:
                warmup()
                warm = True
            doc = json.loads(f.read_text())
            try:
                res = run_scenario(prop, doc["scenario"], doc.get("seed", 0), doc.get("plans"))
                res["corpus"] = f.name
                corpus_results.append(res)
            except BaseException as ex:  # noqa
                herrors.append("corpus %s: %s" % (f.name, "".join(traceback.format_exception(ex))[-1500:]))
    # 2. seeded search in worker processes
    W = max(1, a.workers)
    work = pathlib.Path(runner.new_workdir())
    procs = []
    twice = a.twice or (P.quick_twice if tier == "quick" else 25)
    for w in range(W):
        out = work / ("w%d.jsonl" % w)
        cmd = [sys.executable, str(HERE / "main.py"), prop, "--worker", str(w), "--of", str(W),
               "--count", str(count), "--budget", str(budget), "--seed", str(a.seed), "--out", str(out),
               "--twice", str(twice), "--scenario-timeout", str(a.scenario_timeout)]
        env = dict(os.environ)
        env["PYTHONHASHSEED"] = env.get("PYTHONHASHSEED", "0")
        env["CVERIF_TIER"] = tier
        procs.append((w, out, subprocess.Popen(cmd, env=env, stdout=subprocess.DEVNULL,
                                               stderr=open(str(out) + ".err", "w"))))
    deadline = REAL_TIME() + budget + 180
    for w, out, p in procs:
        try:
            rc = p.wait(timeout=max(1, deadline - REAL_TIME()))
        except subprocess.TimeoutExpired:
            p.kill()
            rc = -9
            herrors.append("worker %d timed out" % w)
        finished = False
        if out.exists():
            for line in open(out):
                try:
                    d = json.loads(line)
                except ValueError:
                    continue
                if "worker_done" in d:
                    finished = True
                elif "harness_error" in d:
                    herrors.append("seed %s: %s" % (d.get("seed"), d["harness_error"]))
                else:
                    results.append(d)
        if rc != 0 or not finished:
            err = ""
            try:
                err = open(str(out) + ".err").read()[-2500:]
            except OSError:
                pass
            herrors.append("worker %d exit status %s finished=%s\n%s" % (w, rc, finished, err))
    results.sort(key=lambda d: d["i"])
    # 2b. obligations of the machinery itself
    selftests = {}
    if not a.no_selftest:
        from cverif import selftest

        try:
            n_det = 12 if tier == "quick" else 64
            cmp_n, mism = selftest.determinism_phase(prop, a.seed, min(n_det, count), results, work)
            selftests["determinism_fresh_interpreters_compared"] = cmp_n
            selftests["determinism_fresh_interpreters_mismatches"] = len(mism)
            selftests["determinism_transient_differences_not_reproduced"] = len(selftest.TRANSIENT)
            if selftest.TRANSIENT:
                print("NOTE: digest difference that did not reproduce in two fresh recomputations: " + selftest.TRANSIENT[0][:300])
            for m in mism[:3]:
                herrors.append("nondeterminism across interpreters (PYTHONHASHSEED / worker split): " + m)
            if prop == "C05":
                q, mism = selftest.git_cross_validate(6 if tier == "quick" else 60, a.seed)
                selftests["fake_git_queries_cross_validated_against_real_git"] = q
                selftests["fake_git_mismatches"] = len(mism)
                for m in mism[:3]:
                    herrors.append("fake git disagrees with the real binary: " + m)
            if prop == "C03" and tier != "quick":
                warmup()
                c, mism = selftest.real_vs_sim_outcomes(40, a.seed)
                selftests["scenarios_cross_validated_against_real_bash_children"] = c
                selftests["real_vs_simulated_outcome_mismatches"] = len(mism)
                for m in mism[:3]:
                    herrors.append("simulated outcome differs from real processes: %s" % (m,))
            if prop == "C09" and tier != "quick":
                runs, hangs, fails = selftest.real_soak()
                runs2, hangs2, fails2 = selftest.real_soak(runs_per_proc=40, sequential=True)
                selftests["real_process_soak_parallel_runs"] = runs
                selftests["real_process_soak_sequential_runs"] = runs2
                runs, hangs, fails = runs + runs2, hangs + hangs2, fails + fails2
                selftests["real_process_soak_runs"] = runs
                selftests["real_process_soak_hangs"] = hangs
                selftests["real_process_soak_failures"] = fails
                if hangs:
                    results.append({"i": -1, "seed": -1, "violations": [
                        {"property": "C09", "signature": "real-process-soak-hang",
                         "detail": {"runs": runs, "hangs": hangs,
                                    "what": "cond run //:all -j 8 on 60 trivial parallel tasks did not terminate within 20 s"},
                         "step": None}], "nontrivial": False, "ntkeys": [], "reach": {}, "stats": {}, "digest": "soak",
                        "full": "soak", "shape": "soak", "sim_seconds": 0, "wall": 0, "extra_evals": runs})
        except BaseException as ex:  # noqa
            herrors.append("selftest failed: " + "".join(traceback.format_exception(ex))[-1500:])
    runner._safe_rmtree(work)
    # 3. property-specific extra phase (enumerations) runs inside the profile's execute/check
    known = load_known()
    all_res = corpus_results + results
    viol = {}
    for d in all_res:
        for v in d["violations"]:
            viol.setdefault(v["signature"], []).append((d, v))
    nondet = [d for d in results if d.get("rerun_same") is False]
    for d in nondet:
        herrors.append("nondeterminism: seed %d produced two different event logs in one process" % d["seed"])
    exit_code = 0
    reported = []
    (VERIF / "replays").mkdir(exist_ok=True)
    n_known = 0
    known_seen = {}
    n_written = 0
    t_shrink_end = REAL_TIME() + (90 if tier == "quick" else 600)
    for sig, lst in sorted(viol.items(), key=lambda kv: (-len(kv[1]), kv[0])):
        k = match_known(known, prop, sig)
        d, v = lst[0]
        if k is not None:
            agg = known_seen.setdefault(k["signature"], [k, 0, d["seed"], set()])
            agg[1] += len(lst)
            agg[3].add(sig)
            continue
        reported.append(sig)
        exit_code = 1
        n_written += 1
        if n_written > 6:
            # further signatures are listed, not minimised (a broken tree can produce hundreds)
            print("VIOLATION-ALSO property=%s signature=%r occurrences=%d seed=%d" % (prop, sig, len(lst), d["seed"]))
            continue
        doc = {"property": prop, "seed": d["seed"], "scenario": d.get("scn"), "plans": d.get("plans"),
               "violation": v, "signature": sig, "event_digest": d["full"], "occurrences": len(lst)}
        if not a.no_shrink and d.get("scn") is not None and REAL_TIME() < t_shrink_end:
            try:
                from cverif import shrink

                doc = shrink.minimise(prop, doc, time_budget=60 if tier == "quick" else 240)
            except BaseException as ex:  # noqa
                doc["shrink_error"] = "".join(traceback.format_exception(ex))[-1500:]
        name = "%s-%s-%d.json" % (prop, hashlib.sha1(sig.encode()).hexdigest()[:8], d["seed"])
        path = VERIF / "replays" / name
        path.write_text(json.dumps(doc, indent=1, default=str))
        print("VIOLATION property=%s replay=%s" % (prop, path))
        print("  signature: %s   (%d occurrence(s))" % (sig, len(lst)))
        print("  detail: %s" % json.dumps(doc["violation"]["detail"], default=str)[:600])
    for ksig, (k, n, seed0, sigs) in sorted(known_seen.items()):
        print("KNOWN-FINDING: property=%s %s (%d occurrence(s) in %d window(s); e.g. seed %d)"
              % (prop, k["what"], n, len(sigs), seed0))
        n_known += 1
    if herrors:
        try:
            with open(VERIF / "replays" / ("harness-errors-%s.log" % prop), "a") as hf:
                hf.write("==== seed=%d tier=%s\n" % (a.seed, tier) + "\n----\n".join(herrors) + "\n")
        except OSError:
            pass
        print("HARNESS-ERROR (%d):" % len(herrors))
        for h in herrors[:5]:
            print("  " + h.replace("\n", "\n  ")[:3000])
        if exit_code == 0:
            exit_code = 2
    wall = REAL_TIME() - t0
    if not a.no_evidence:
        write_evidence(prop, P, tier, a.seed, all_res, results, reported, n_known, wall, herrors, selftests)
    nt = len({(d["shape"], d["digest"]) for d in all_res if d["nontrivial"]})
    print("%s %s: %d scenarios (%d corpus), %d distinct non-trivial, %d violation signature(s), %d known, "
          "%d harness error(s), %.1fs" % (prop, tier, len(all_res), len(corpus_results), nt, len(reported),
                                          n_known, len(herrors), wall))
    return exit_code


def write_evidence(prop, P, tier, seed, all_res, results, reported, n_known, wall, herrors, selftests=None):
    faults, reach, stats = {}, {}, {}
    for d in all_res:
        for k, v in d.get("stats", {}).items():
            if k.startswith("fault."):
                faults[k[6:]] = faults.get(k[6:], 0) + v
            elif k.startswith("reach."):
                reach[k[6:]] = reach.get(k[6:], 0) + v
            else:
                stats[k] = stats.get(k, 0) + v
        for k, v in d.get("reach", {}).items():
            reach[k] = reach.get(k, 0) + v
    nt = {(d["shape"], d["digest"]) for d in all_res if d["nontrivial"]}
    samples = [d["sample"] for d in all_res if "sample" in d][:3]
    if not samples and all_res:
        samples = [{"seed": all_res[0]["seed"], "shape": all_res[0]["shape"], "digest": all_res[0]["digest"]}]
    evals = len(all_res) + sum(d.get("extra_evals", 0) for d in all_res)
    sim_s = sum(d.get("sim_seconds", 0) for d in all_res)
    ev = {
        "property_id": prop,
        "tier": tier,
        "seed": seed,
        "level": P.level,
        "coverage": {
            "evaluations": evals,
            "distinct_nontrivial": len(nt),
            "rule": P.rule,
            "samples": samples,
            "scenarios": len(all_res),
            "invocations": stats.get("invocations", 0),
            "instants": stats.get("instants", 0),
            "async_environment_events": stats.get("async_events", 0),
            "distinct_interleavings": len({d["digest"] for d in all_res}),
            "distinct_scenario_shapes": len({d["shape"] for d in all_res}),
            "faults_fired": faults,
            "reach_probes": reach,
            "simulated_seconds": round(sim_s, 1),
            "scenarios_per_hour": int(len(all_res) / max(wall, 1e-6) * 3600),
            "determinism_reruns": sum(1 for d in results if "rerun_same" in d),
            "determinism_mismatches": sum(1 for d in results if d.get("rerun_same") is False),
            "components_real": ["conductor (all of /repo/src/conductor used by the cli)",
                                "COND files and included files (executed as monitored user code)",
                                "CPython subprocess.Popen lifecycle", "sqlite3",
                                "file system (tmpfs; injectable: mkdir / rmtree failure)", "tar", "kernel pipes"],
            "components_stub": ["task processes (scripted; can be stopped / continued by job control)",
                                "process table / waitpid (WUNTRACED) / getpgid / killpg",
                                "signal delivery, dispositions, signal mask, SA_RESTART", "clock",
                                "git binary (commit DAG, annotated tags; cross-validated against the real one)",
                                "thread scheduler (tee pool and threads the program starts itself)",
                                "reader of Conductor's own stdout (may go away or stall)"],
            "selftests": selftests or {},
            "known_findings_seen": n_known,
            "harness_errors": len(herrors),
            "exhaustive": False,
        },
        "assumptions": P.assumptions,
        "wall_s": round(wall, 2),
        "violations": len(reported),
    }
    enums = [d["enum_info"] for d in all_res if d.get("enum_info")]
    if enums:
        ev["coverage"]["fault_enumeration"] = {
            "scenarios_with_enumeration": len(enums),
            "injection_points_numbered": sum(e.get("total", 0) for e in enums),
            "injection_points_tried": sum(e.get("tried", 0) for e in enums),
            "scenarios_enumerated_exhaustively": sum(1 for e in enums if e.get("exhaustive")),
            "by_operation": {k: sum(1 for e in enums if e.get("op") == k) for k in sorted({e.get("op") for e in enums})},
        }
        ev["coverage"]["exhaustive"] = False
    extra = getattr(P, "evidence_extra", None)
    if extra:
        ev["coverage"].update(extra(all_res))
    (VERIF / "evidence").mkdir(exist_ok=True)
    (VERIF / "evidence" / (prop + ".json")).write_text(json.dumps(ev, indent=1, default=str))


def replay_main(a):
    doc = json.loads(pathlib.Path(a.replay).read_text())
    prop = doc["property"]
    warmup()
    res = run_scenario(prop, doc["scenario"], doc["seed"], doc.get("plans"))
    sigs = sorted({v["signature"] for v in res["violations"]})
    print("replay of %s: signatures=%s digest=%s" % (a.replay, sigs, res["full"]))
    if doc.get("signature") in sigs:
        if doc.get("event_digest") and doc["event_digest"] != res["full"]:
            print("HARNESS-ERROR: violation reproduced but the event digest differs")
            return 2
        print("VIOLATION property=%s replay=%s" % (prop, a.replay))
        return 1
    if doc.get("signature"):
        print("HARNESS-ERROR: replay did not reproduce %r" % doc["signature"])
        return 2
    return 1 if sigs else 0


if __name__ == "__main__":
    main()
