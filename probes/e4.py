import sys, types, random, pathlib, tempfile, shutil, time, os
sys.path.insert(0, "/tmp/scratch")
import e3
import subprocess, conductor
mon=sys.monitoring; TOOL=3; E=mon.events
try: mon.use_tool_id(TOOL,"sim")
except ValueError: pass
state={"rng":None,"p":0.0,"n":0,"in_cb":False}
def instant():
    if state["in_cb"]: return
    state["n"]+=1
    if state["rng"].random()<state["p"]:
        state["in_cb"]=True
        try: e3.K.exit_one()
        finally: state["in_cb"]=False
def checkpoint():
    if state["in_cb"]: return
    instant()
    if e3.K.pending:
        state["in_cb"]=True
        try: e3.K.deliver()
        finally: state["in_cb"]=False
mon.register_callback(TOOL,E.LINE,lambda c,l: instant())
mon.register_callback(TOOL,E.PY_START,lambda c,o: checkpoint())
mon.register_callback(TOOL,E.CALL,lambda c,o,f,a: instant())
mon.register_callback(TOOL,E.C_RETURN,lambda c,o,f,a: checkpoint())
mon.register_callback(TOOL,E.C_RAISE,lambda c,o,f,a: checkpoint())
def codes_of(obj, seen):
    if isinstance(obj, types.CodeType):
        if obj in seen: return
        seen.add(obj)
        for c in obj.co_consts: codes_of(c, seen)
    elif isinstance(obj, types.FunctionType): codes_of(obj.__code__, seen)
    elif isinstance(obj,(staticmethod,classmethod)): codes_of(obj.__func__, seen)
    elif isinstance(obj, property):
        for f in (obj.fget,obj.fset,obj.fdel):
            if f: codes_of(f, seen)
    elif isinstance(obj, type):
        for v in vars(obj).values(): codes_of(v, seen)
def enable():
    import conductor.__main__
    seen=set()
    for name,mod in list(sys.modules.items()):
        if name=="conductor" or name.startswith("conductor."):
            if "proto_gen" in name or ".envs" in name or "explorer" in name: continue
            for v in vars(mod).values():
                if getattr(v,"__module__",None)==name: codes_of(v, seen)
    for f in (subprocess.Popen.__init__, subprocess.Popen._execute_child, subprocess.Popen.__del__, subprocess.Popen._internal_poll, subprocess._cleanup, subprocess.Popen._handle_exitstatus, subprocess.Popen._try_wait):
        codes_of(f, seen)
    for c in seen: mon.set_local_events(TOOL,c,E.LINE|E.PY_START|E.CALL)
    return len(seen)
if __name__=="__main__":
    e3.install(); print("codes", enable())
    root=pathlib.Path(tempfile.mkdtemp(prefix="simp", dir="/dev/shm"))
    (root/"cond_config.toml").write_text("disable_git = true\n")
    (root/"COND").write_text('''
run_experiment(name="a", run="sim a", deps=[":b", ":c"], parallelizable=True)
run_experiment(name="b", run="sim b", deps=[":d"], parallelizable=True)
run_experiment(name="c", run="sim c", deps=[":d"], parallelizable=True)
run_command(name="d", run="sim d")
''')
    N=int(sys.argv[1]); t0=time.time(); dead=0; tot=0
    for seed in range(N):
        e3.K=e3.Kernel(random.Random(seed)); state["rng"]=random.Random(seed*7+1); state["p"]=0.01; state["n"]=0
        subprocess._active.clear()
        try:
            code,out,err=e3.run_cond(["run","//:a","-j","2","--again"], str(root))
        except RuntimeError as ex:
            dead+=1
            if dead<=2: print(seed, ex, [e for e in e3.K.events if e[0]=="reap"])
            # cleanup singleton state
            import conductor.utils.sigchld as sc; sc.SigchldHelper._Instance=None
        tot+=state["n"]
    dt=time.time()-t0
    print("runs/s", N/dt, "deadlocks", dead, "instants/run", tot/N)
    shutil.rmtree(root)
