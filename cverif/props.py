"""Registry: property id -> profile generator, oracle, budgets, evidence texts."""
from . import oracles, profiles, runner

COMMON_ASSUMPTIONS = [
    "the reference model in cverif/model.py (written from website/docs and the property text)",
    "the fake kernel follows Linux waitpid/getpgid/killpg semantics (cverif/sim.py)",
    "Python-level signal handlers run only at the check points measured on this CPython 3.12.1 "
    "(after CALL, at function entry); C-internal polls are not modelled (sound, incomplete)",
    "SQLite and tmpfs are atomic under process kill (no power-loss model)",
    "a clean batch is evidence over the seeds explored, not a proof",
]


class Prop:
    level = "exploration"
    quick_count = 400
    quick_budget = 60.0
    thorough_budget = 600.0
    quick_twice = 10
    assumptions = COMMON_ASSUMPTIONS
    rule = ""
    technique = "deterministic simulation with fault injection: seeded search over scenarios, schedules and faults"
    level_text = ("seeded exploration: many small generated projects and histories executed by the real "
                  "Conductor code under a simulated kernel/clock/scheduler; the oracle is evaluated on every "
                  "run; evidence over the seeds explored, not a proof")
    level_note = ("trusts the reference model (cverif/model.py), the fake kernel's fidelity to Linux process "
                  "semantics, the measured CPython 3.12 signal check points, SQLite/tmpfs atomicity under kill")

    def __init__(self, pid, gen, check, rule, **kw):
        self.pid = pid
        self.gen = gen
        self.check = check
        self.rule = rule
        for k, v in kw.items():
            setattr(self, k, v)

    def execute(self, scn, seed, plans=None):
        return runner.execute(scn, seed, plans, keep=True)


PROPS = {}


def reg(pid, rule, **kw):
    PROPS[pid] = Prop(pid, profiles.GEN[pid], oracles.CHECKS[pid], rule, **kw)


GEN_TXT = ("scenario = random DAG (2-9 tasks over nested packages, all kinds, permuted dep listing) + "
           "history of cond invocations + child scripts + scheduler knobs, all from one seed; ")

reg("C01", GEN_TXT + "distinct = distinct (scenario shape, abstract event-sequence digest); non-trivial = "
    "the invocation started at least one task that has a transitive dependency executed in the same invocation",
    quick_count=5000)
reg("C02", GEN_TXT + "distinct = distinct (shape, digest); non-trivial = the model's needed set is non-empty "
    "(progress total, executed multiset and recorded rows are compared with it)", quick_count=4000)
reg("C03", GEN_TXT + "distinct = distinct (shape, digest); non-trivial = at least one needed task fails "
    "(exit code / signal / fork failure / exec failure) so the fail/skip closure is exercised",
    quick_count=6000)
reg("C04", GEN_TXT + "distinct = distinct (shape, digest); non-trivial = at least one task process was "
    "spawned (slot and exclusivity rules evaluated at every spawn/exit)", quick_count=8000)
reg("C09", GEN_TXT + "child exits land at arbitrary monitoring instants (LINE/CALL/PY_START/C_RETURN of "
    "conductor.* and subprocess.Popen); distinct = distinct (shape, digest); non-trivial = at least one "
    "task process ran to completion under the interposed kernel", quick_count=6000)
reg("C05", "scenario = 2-5 tasks (mostly experiments) + history interleaving git operations (commit, branch, "
    "checkout incl. detached, merge, dirty, init of a foreign repository) with cond run (default/--again/"
    "--at-least SYM/--this-commit), cond where, config toggles of disable_git and archive/restore of foreign "
    "rows; distinct = distinct (shape, digest); non-trivial = a run or where whose outcome depends on the "
    "selection rule (model plan non-empty, or flag validation exercised)", quick_count=5000)
reg("C07", GEN_TXT + "args/options of every primitive type, nested packages, invocation from drawn working "
    "directories, conductor.lib evaluated inside the stub child under its environment; distinct = distinct "
    "(shape, digest); non-trivial = at least one task process was spawned and its argv/cwd/env compared with "
    "the model", quick_count=6000)
reg("C08", GEN_TXT + "histories of runs that succeed, fail, are aborted by SIGINT/SIGTERM or killed, with "
    "clock gaps of 0 s, sub-second, backwards steps and restores of archives whose timestamps lie in the "
    "future; distinct = distinct (shape, digest); non-trivial = an experiment was spawned (freshness checked) "
    "or an operation ran while recorded versions existed (tree hashes compared)", quick_count=2500)


# ---------------------------------------------------------------------------------------------
# enumerating properties

import copy as _copy
import random as _random

from . import enumerate as E
from . import model as M


class EnumProp(Prop):
    level = "fault_enumeration"
    quick_twice = 0
    level_text = ("fault enumeration: for each sampled scenario the fault (process kill at a syscall-adjacent "
                  "instant / SIGINT or SIGTERM at an interpreter check point) is injected at every enumerated "
                  "instant of one operation (all of them in the thorough tier when they fit the budget, a seeded "
                  "sample biased to the write-heavy region in the quick tier) and the invariant is evaluated on "
                  "the surviving state each time; exhaustive per sampled scenario only")
    technique = ("deterministic simulation with fault injection: enumeration of crash points (fork + os._exit) / "
                 "signal delivery points under a seeded scenario and schedule search")


class C06Prop(EnumProp):
    def execute(self, scn, seed, plans=None):
        enum = scn.get("enum")
        records, info = [], {}

        def hook(i, st, world, op):
            if not enum or i != enum["step"] or op["op"] not in ("run", "restore", "archive", "gc"):
                return None
            work = world.root.parent
            r = _random.Random(seed ^ 0xC06)
            git = M.GitView(_copy.deepcopy(world.git_state), getattr(world, "disable_git", False))
            before = st.before

            def evaluate(k, inv, snap, sw):
                arch = sw.op(op).get("archive_path")
                return oracles.durable_violations(scn, op, git, before, snap, inv.trace, sw.dst / "proj", arch)

            if enum.get("mode") == "signal" and op["op"] == "run":
                # the other way a command ends early: SIGINT / SIGTERM at enumerated interpreter check points (the
                # abort path runs Conductor's own clean-up code, which a kill never does)
                def evaluate_sig(k, sig, inv, snap, sw):
                    return oracles.durable_violations(scn, op, git, before, snap, inv.trace, sw.dst / "proj", None)

                recs, total, exh = E.signal_enumeration(world, op, work, enum["budget"], r, evaluate_sig)
                for rec in recs:
                    rec.update(step=i, op=op["op"], mode="signal")
                records.extend(recs)
                info.update(total=total, exhaustive=exh, tried=len(recs), op="run (signal)")
                return None
            recs, total, exh = E.kill_enumeration(world, op, work, enum["budget"], r, evaluate)
            for rec in recs:
                rec.update(step=i, op=op["op"])
            records.extend(recs)
            info.update(total=total, exhaustive=exh, tried=len(recs), op=op["op"])
            return None

        run = runner.execute(scn, seed, plans, hook=hook, keep=True)
        run.enum = records
        run.enum_info = info
        return run


PROPS["C06"] = C06Prop(
    "C06", profiles.GEN["C06"], oracles.CHECKS["C06"],
    "scenario = small project + history of run / archive / clean / restore / gc (tasks succeed, fail, die) "
    "with optional git; one operation of the history is chosen and the cond process is killed at enumerated "
    "syscall-adjacent instants (CALL / C_RETURN of C functions in conductor.*, subprocess, shutil, sqlite) in a "
    "forked copy; after every kill and after every completed operation the invariant 'every row has a complete "
    "directory, produced by an execution that exited 0, with HEAD's commit and dirty flag' is evaluated on disk. "
    "evaluations = scenarios + kill points; distinct = distinct (shape, digest); non-trivial = a kill actually "
    "fired or new rows appeared",
    quick_count=480, quick_budget=90.0)


class C12Prop(EnumProp):
    def execute(self, scn, seed, plans=None):
        enum = scn.get("enum")
        records, info = [], {}

        def hook(i, st, world, op):
            if not enum or i != enum["step"] or op["op"] != "restore":
                return None
            work = world.root.parent
            r = _random.Random(seed ^ 0xC12)
            before = st.before
            arch_rows = st.archive_info

            copied = {}

            def evaluate(k, inv, snap, sw):
                have = [r_ for r_ in (arch_rows or []) if M.out_dir_rel(r_[0], r_[1]) in snap["tree"]
                        and M.out_dir_rel(r_[0], r_[1]) not in before["tree"]]
                copied[k] = bool(have) and inv.killed
                return oracles.restore_violations(before, snap, inv.code, inv.killed, arch_rows,
                                                  arch_path=oracles._intact_archive_of(st))

            recs, total, exh = E.kill_enumeration(world, op, work, enum["budget"], r, evaluate)
            for rec in recs:
                rec.update(step=i, op=op["op"], dirs_copied=copied.get(rec["k"], False))
            records.extend(recs)
            info.update(total=total, exhaustive=exh, tried=len(recs), op=op["op"])
            return None

        run = runner.execute(scn, seed, plans, hook=hook, keep=True)
        run.enum = records
        run.enum_info = info
        return run


PROPS["C12"] = C12Prop(
    "C12", profiles.GEN["C12"], oracles.CHECKS["C12"],
    "scenario = small project + runs + archive (all / --latest / task closure) + prior state for the restore "
    "(cleaned, cleaned and re-run, kept => duplicate rows, unrecorded directory planted where a version will be "
    "copied) + one corruption of the archive (missing index, missing member, truncation at 10/50/90 %, garbage, "
    "index not SQLite) or none; the restore is additionally killed at enumerated syscall-adjacent instants in a "
    "forked copy. Oracle: not successful => rows and every recorded tree unchanged; successful => every archive "
    "row recorded with its directory. evaluations = scenarios + kill points; non-trivial = a restore was executed "
    "(distinct by outcome x corruption x prior state) or a kill fired",
    quick_count=480, quick_budget=90.0)


class C16Prop(EnumProp):
    def execute(self, scn, seed, plans=None):
        enum = scn.get("enum")
        records, info = [], {}

        def hook(i, st, world, op):
            if not enum or i != enum["step"] or op["op"] != "run":
                return None
            work = world.root.parent
            r = _random.Random(seed ^ 0xC16)
            before = st.before

            def evaluate(k, sig, inv, snap, sw):
                probs, fired = oracles.abort_violations(scn, op, before, snap, inv)
                evaluate.last = (fired, inv)
                return probs

            recs, total, exh = E.signal_enumeration(world, op, work, enum["budget"], r, evaluate)
            for rec in recs:
                rec.update(step=i, op=op["op"])
            records.extend(recs)
            info.update(total=total, exhaustive=exh, tried=len(recs), op=op["op"])
            return None

        run = runner.execute(scn, seed, plans, hook=hook, keep=True)
        run.enum = records
        run.enum_info = info
        return run


PROPS["C16"] = C16Prop(
    "C16", profiles.GEN["C16"], oracles.CHECKS["C16"],
    "scenario = small project (parallelizable tasks, -j 1..3, children that stay in flight for several steps, "
    "some ignoring SIGTERM for a while) + one cond run; SIGINT / SIGTERM is delivered at enumerated interpreter "
    "check points (function entry, return of every C call, exit of every kernel shim, blocking points) between "
    "registration of the handlers and the end of the command, one signal per execution. Oracle: every process "
    "spawned and not yet reaped when the signal arrived got SIGTERM through its group; no row for a task that "
    "had not exited 0; exit status non-zero with the abort message, no other exception. evaluations = scenarios + "
    "signal points; distinct = distinct (shape, digest, window); non-trivial = the signal was delivered",
    quick_count=256, quick_budget=100.0)
reg("C10", "scenario = 1-4 tasks (mostly experiments, args/options of every primitive type) + runs in "
    "sequential (teed through the two tee threads) and parallel (file handed to the child) mode; every child "
    "script interleaves writes on stdout/stderr of 0 B .. 140 kB (text, random bytes, all 256 values), some "
    "exit before the pipe is drained; the scheduler decides when each tee thread performs each raw read. "
    "Oracle: stdout.log / stderr.log byte-equal to the scripted streams; in teed mode the bytes between the "
    "task's status lines on Conductor's own stdout, and the prefix of its stderr, equal them too; args.json / "
    "options.json present iff non-empty and decoding to the declared values. distinct = distinct (shape, digest); "
    "non-trivial = an experiment ran to completion and its logs were compared", quick_count=3500, quick_budget=80.0)
reg("C11", "scenario = nested packages with experiments and non-archivable tasks in between + 1-4 runs (several "
    "versions per task, arbitrary file trees: nested directories, empty directories, files of 0 B..70 kB, "
    "look-alike *.task.N directories inside outputs, symbolic links) + cond archive [T] [--latest] [-o] (real tar) "
    "+ clean / fresh cond-out + cond restore; oracle: rows inside the archive and rows gained by the restore == "
    "the documented selection, identical ids / commit / dirty flag, each restored tree (names, types, contents, "
    "link targets) == the source tree at archive time, source project untouched by archive. distinct = distinct "
    "(shape, digest); non-trivial = an archive with >= 1 version was created or round-tripped", quick_count=2000)
reg("C13", "scenario = project + runs that succeed / fail / are aborted by a signal / killed, archive + restore "
    "(also killed midway or with a missing member, leaving staging leftovers), manual additions (stray files, "
    "plain directories, unrecorded look-alike <name>.task.<n> directories at several depths, look-alikes nested "
    "inside run_command and experiment outputs, a symbolic link to a directory outside cond-out that holds "
    "look-alikes, a symbolic link named like a version), then cond gc [-n] [-v]; oracle: deletion set computed "
    "independently from the pre-gc tree and the index == disk diff (everything else byte-identical, nothing "
    "outside touched) == printed list. distinct = distinct (shape, digest); non-trivial = a gc was executed",
    quick_count=3500)
reg("C18", GEN_TXT + "graphs always contain combine tasks over dependencies of every kind (experiment, command, "
    "group, combine) in nested packages; histories re-run with --again so new versions appear; an unrelated file "
    "or directory is sometimes planted where a link must go. Oracle: every entry resolves to the directory the "
    "dependency wrote / had selected in this invocation; planted entries make the run fail and stay untouched. "
    "distinct = distinct (shape, digest); non-trivial = a combine step was executed", quick_count=6000)


class C17Prop(Prop):
    def execute(self, scn, seed, plans=None):
        import json as _json

        ref_scn = _json.loads(_json.dumps(scn))
        for op in ref_scn["history"]:
            if "cwd" in op:
                op["cwd"] = ""
            op.pop("via_symlink", None)
        ref = runner.execute(ref_scn, seed, plans, keep=True)
        try:
            run = runner.execute(scn, seed, plans, keep=True)
        except BaseException:
            runner._safe_rmtree(ref.work)
            raise
        run.ref = ref
        run.extra_work = [ref.work]
        return run


PROPS["C17"] = C17Prop(
    "C17", profiles.GEN["C17"], oracles.CHECKS["C17"],
    "scenario = project + history mixing run / where / gc / archive / restore / clean with every flag "
    "combination; the whole history is executed twice under the same seed and schedule - once with every command "
    "started in the project root, once with each command started in a drawn directory (package directory, directory "
    "without COND, cond-out, a package directory inside cond-out, a task output directory) - and exit status, "
    "resulting cond-out (rows + trees) and printed locations (resolved against the respective cwd) are compared. "
    "distinct = distinct (shape, digest); non-trivial = a command was compared from a non-root directory",
    quick_count=2500)



# ---------------------------------------------------------------------------------------------
# what each check assures, in its own words (MANIFEST level_claimed.text / level_note)

_TEXT = {
    "C01": "Every spawn / combine step / exit of every generated run is checked online against the model's "
           "transitive closure: no dependent starts before, overlaps with, or starts after the failure of a "
           "dependency executed in the same invocation; completion orders, batching of exits and -j are chosen by "
           "the seeded scheduler. Exploration: evidence over the seeds run, not a proof.",
    "C02": "Executed multiset, 'cached' lines, progress totals and new index rows of every run are compared with "
           "the needed set computed by the reference model from the index contents and flags.",
    "C03": "Failing subsets (exit code, signal, fork failure, exec failure) are injected by the fake kernel; the "
           "started / failed / skipped sets, the final report and the exit status are compared with the model's "
           "fail/skip closure; --stop-early is checked against the observed first failure (no later start, every "
           "still-running task SIGTERMed through its group).",
    "C04": "Online invariant over the running set at every spawn and exit: at most JOBS processes, sequential "
           "tasks and combine steps alone, COND_SLOT distinct and in range, absent for sequential tasks and "
           "JOBS = 1 (also when cond itself inherited one).",
    "C05": "The documented selection rule re-implemented over the scenario's commit DAG is compared with what runs, "
           "what `cond where` prints and what dependents get in COND_DEPS; the git binary is a stub that is "
           "cross-validated against the real git in every run.",
    "C07": "argv / cwd / environment of every spawn, the per-invocation dependency snapshot, the recorded version "
           "vs the COND_OUT handed out, and conductor.lib evaluated under the child's environment are compared "
           "with the model.",
    "C08": "Freshness and emptiness of every experiment's directory at spawn, ids greater than every recorded id, "
           "and byte-identity of every recorded directory across every later operation, under clock gaps of 0 s, "
           "backward steps and restored future timestamps.",
    "C09": "Child exits are placed at arbitrary monitoring instants of Conductor's and subprocess's code, batched, "
           "before Popen returns, with stray children; a blocked main thread with no enabled event is the production "
           "hang and is reported, as are lost, duplicated or misattributed outcomes. Signals interrupt blocking calls "
           "only if they arrive while blocked (CPython's EINTR rule).",
    "C10": "stdout.log / stderr.log, the bytes forwarded to Conductor's own streams and args/options records are "
           "compared byte for byte with the scripted streams; the scheduler decides every raw read of each tee "
           "thread and pre-empts the threads at every line.",
    "C11": "Rows and trees before `cond archive` are compared with the archive's own index and with rows and trees "
           "after `cond restore` into a project that lacks them, for all / --latest / task-closure selections; real tar.",
    "C13": "An independently computed deletion set is compared with the disk diff and the printed list of every gc; "
           "cond-out trees come from failed / aborted / killed runs and restores plus manual additions.",
    "C17": "Differential: the same history under the same seed and schedule from the root and from drawn "
           "directories; exit status, cond-out and printed locations must agree.",
    "C18": "Every combine entry is resolved and compared with the directory the dependency wrote or had selected "
           "in that invocation; conflicting entries must fail the run and stay untouched.",
    "C06": "Invariant 'every row has a complete directory, produced by an execution that exited 0, with HEAD's "
           "commit and dirty flag' evaluated after every operation and after a process kill at enumerated "
           "syscall-adjacent instants (fork + os._exit) of run / restore / archive / gc, and after SIGINT / SIGTERM at "
           "enumerated interpreter check points of run (the abort path executes clean-up code a kill never runs).",
    "C12": "All-or-nothing of restore evaluated for every corruption kind and after a process kill at enumerated "
           "instants of the restore; existing version directories must stay byte-identical.",
    "C16": "SIGINT / SIGTERM delivered at enumerated interpreter check points of `cond run` (in a third of the scenarios "
           "followed by a second signal 1-250 check points later; also while the main thread is blocked on its own "
           "stalled stdout); every process running at that moment must end up SIGTERMed (or gone), nothing unfinished "
           "recorded, exit through the abort path (or death by the signal once the command has put the default "
           "dispositions back).",
}
for _pid, _t in _TEXT.items():
    if _pid in PROPS:
        P_ = PROPS[_pid]
        P_.level_text = _t + (" " + EnumProp.level_text if isinstance(P_, EnumProp) else
                              " Seeded exploration with a determinism self-test in every run; evidence over the seeds explored, not a proof.")
