"""One oracle per claimed property.  Each takes a Run (runner.execute) and returns
(violations, facts) where facts feed the evidence (non-triviality keys, reach probes)."""
import json
import os
import re
import shlex

from . import model as M
from . import sim
from .obs import RunObs, Violation, fail_skip_sets, strip, exec_path_exists, hidden_skips

HID = " [only-through-cached-experiment]"
from .scenario import split_tid


def stdout_broke(st):
    """injected I/O fault: the reader of Conductor's own stdout went away and the command died of the
    BrokenPipeError (uncaught, as in any Python program).  What it printed cannot be judged then; what it
    started, overlapped, recorded or left on disk still is (C01, C04, C06, C08)."""
    inv = st.inv
    return bool(st.op.get("own_stdout")) and inv is not None and (
        getattr(inv, "stdout_broken", False)
        or (inv.internal is not None and inv.internal[0] == "BrokenPipeError"))


def run_steps(run, io_faulted=False):
    for i, st in enumerate(run.steps):
        if st.op["op"] == "run" and st.inv is not None:
            if not io_faulted and stdout_broke(st):
                continue
            yield i, st


def _status_ok(status):
    return status == 0


# ============================================================================= C09

def check_C09(run):
    V, facts = [], {"nontrivial": []}
    for i, st in run_steps(run):
        inv = st.inv
        if inv.killed or st.op.get("signal"):
            continue
        o = RunObs(run.scn, st)
        reaps_direct = sorted({x["via"].split(":", 1)[1] for ti, k, t, x in o.events
                               if k == "reap" and x["via"].startswith("pid:")})
        if inv.deadlock is not None:
            stolen = [x for ti, k, t, x in o.events if k == "reap" and x["via"].startswith("pid:")
                      and x["via"].split(":")[1] in ("_internal_poll", "_try_wait", "poll", "wait", "_wait")]
            if stolen:
                sig = "hang exit-status-stolen via=%s" % ",".join(sorted({x["via"].split(":")[1] for x in stolen}))
            else:
                sig = "hang blocked=%s" % inv.deadlock
            V.append(Violation("C09", sig, {"trace_tail": [list(e) for e in inv.trace[-25:]]}, i))
            continue
        if inv.internal is not None:
            V.append(Violation("C09", "internal-error %s at %s" % (inv.internal[0], inv.internal[1]),
                               {"internal": list(inv.internal)}, i))
            continue
        needed, cached, err = o.model_plan()
        if err == "duplicate-dependency" and o.started_tasks():
            V.append(Violation("C09", "tasks-executed-although-the-definitions-must-be-refused",
                               {"started": o.started_tasks()[:4]}, i))
        if err or st.op.get("flags", {}).get("check"):
            continue
        if inv.exit_hang:
            V.append(Violation("C09", "hang at-exit tee-threads-never-finish", {}, i))
        # exactly one outcome per needed task
        outcomes = {}
        for ti, kind, t, _, _ in o.printed:
            if kind in ("done", "failed", "skipping"):
                outcomes.setdefault(t, []).append(kind)
        stop_early = bool(st.op.get("flags", {}).get("stop_early"))
        F, S = fail_skip_sets(o, needed)
        for t in sorted(needed):
            got = outcomes.get(t, [])
            if len(got) > 1:
                V.append(Violation("C09", "task-reported-more-than-once", {"task": t, "got": got}, i))
            elif len(got) == 0 and not (stop_early and F):
                V.append(Violation("C09", "task-without-outcome", {"task": t}, i))
        for t, got in outcomes.items():
            if t not in needed:
                V.append(Violation("C09", "outcome-for-unneeded-task", {"task": t, "got": got}, i))
        # attribution: the reported outcome is the one the child really had
        exit_status = {}
        for ti, k, t, x in o.events:
            if k == "exit" and t in run.scn["tasks"]:
                exit_status.setdefault(t, []).append((x["how"], x["status"]))
        for t, got in outcomes.items():
            if t not in run.scn["tasks"] or run.scn["tasks"][t]["kind"] not in ("exp", "cmd"):
                continue
            sts = exit_status.get(t, [])
            if len(sts) != 1 or len(got) != 1:
                continue
            how, status = sts[0]
            if how in ("sigterm", "sigkill"):
                continue
            if status == 0 and got[0] == "failed":
                V.append(Violation("C09", "successful-task-reported-failed", {"task": t}, i))
            if status != 0 and got[0] == "done":
                V.append(Violation("C09", "failed-task-reported-successful", {"task": t, "status": status}, i))
        nproc = len(o.proc_starts())
        if nproc >= 1:
            facts["nontrivial"].append("n%d" % nproc)
        # reach probes
        for ti, k, t, x in o.events:
            if k == "reap" and x["via"].startswith("pid:"):
                facts.setdefault("reach", {}).setdefault("reap_direct:" + x["via"].split(":")[1], 0)
                facts["reach"]["reap_direct:" + x["via"].split(":")[1]] += 1
        _probe_coalesced(o, facts)
    return V, facts


def _probe_coalesced(o, facts):
    """≥2 zombies reaped by one handler run"""
    reach = facts.setdefault("reach", {})
    cnt = 0
    for e in o.inv.trace:
        if e[0] == "handler" and e[1] == "SIGCHLD":
            cnt = 0
        elif e[0] == "reap" and e[2].startswith("any:"):
            cnt += 1
            if cnt == 2:
                reach["coalesced_sigchld"] = reach.get("coalesced_sigchld", 0) + 1


# ============================================================================= C01

def check_C01(run):
    V, facts = [], {"nontrivial": []}
    tasks = run.scn["tasks"]
    for i, st in run_steps(run, io_faulted=True):
        inv = st.inv
        if inv.killed:
            continue
        o = RunObs(run.scn, st)
        running = {}   # exec name -> task
        exits = {}     # task -> list of statuses (in order)
        started = {}   # task -> list of start trace indices
        all_starts = [(ti, t) for ti, k, t, x in o.events if k == "start"]
        executed = {t2 for _, t2 in all_starts} | {t2 for _, kind, t2, _, _ in o.printed if kind == "running"}
        # tasks that are part of this invocation's plan (executed, skipped or failed to launch): a path
        # through them is an ordinary dependency path; only a path through a *pruned* (cached) task is
        # the known planner gap
        try:
            planned, _, _err = o.model_plan()
        except Exception:
            planned = set()
        executed = executed | planned | {t2 for _, kind, t2, _, _ in o.printed if kind == "skipping"}
        pairs = 0
        for ti, k, t, x in o.events:
            if k == "start":
                if t not in tasks:
                    continue
                td = M.trans_deps(tasks, t)
                for d in sorted(td):
                    d_runs_here = any(t2 == d for _, t2 in all_starts)
                    if not d_runs_here:
                        continue
                    pairs += 1
                    hid = "" if exec_path_exists(tasks, t, d, executed) else HID
                    # every execution of d must have exited 0 before now, none running
                    if any(task == d for task in running.values()):
                        V.append(Violation("C01", "dependent-started-while-dependency-running" + hid,
                                           {"task": t, "dep": d}, i))
                    d_starts = [s for s, t2 in all_starts if t2 == d]
                    if any(s > ti for s in d_starts):
                        V.append(Violation("C01", "dependency-started-after-dependent" + hid,
                                           {"task": t, "dep": d}, i))
                    elif tasks[d]["kind"] in ("exp", "cmd"):
                        sts = exits.get(d, [])
                        n_started_before = len([s for s in d_starts if s < ti])
                        if len(sts) < n_started_before and not any(task == d for task in running.values()):
                            V.append(Violation("C01", "dependent-started-before-dependency-exit" + hid,
                                               {"task": t, "dep": d}, i))
                        if any(s != 0 for s in sts):
                            V.append(Violation("C01", "dependent-started-after-dependency-failed" + hid,
                                               {"task": t, "dep": d, "statuses": sts}, i))
                if x["proc"]:
                    running[x["name"]] = t
                started.setdefault(t, []).append(ti)
            elif k == "exit":
                running.pop(x["name"], None)
                exits.setdefault(t, []).append(x["status"])
        if pairs:
            facts["nontrivial"].append("pairs%d" % min(pairs, 9))
    return V, facts


# ============================================================================= C02

def check_C02(run):
    V, facts = [], {"nontrivial": []}
    tasks = run.scn["tasks"]
    # what is reusable is decided by the recorded versions: commands that only read them (or only remove
    # unrecorded directories) must leave them alone, or the next run executes tasks it had no reason to
    for i, st in enumerate(run.steps):
        if st.op["op"] in ("gc", "where", "archive") and st.inv is not None and not st.inv.killed \
                and st.before is not None and st.after is not None \
                and isinstance(st.before["rows"], list) and isinstance(st.after["rows"], list):
            lost = [list(r) for r in st.before["rows"] if tuple(r) not in set(map(tuple, st.after["rows"]))]
            if lost:
                V.append(Violation("C02", "reusable-version-lost-its-record-through-cond-%s" % st.op["op"],
                                   {"lost": lost[:4]}, i))
    for i, st in run_steps(run):
        inv = st.inv
        if inv.killed or inv.deadlock is not None:
            continue
        o = RunObs(run.scn, st)
        dups = [t for t in (M.closure(tasks, st.op["target"]) if st.op["target"] in tasks else [])
                if len(set(tasks[t]["deps"])) < len(tasks[t]["deps"])]
        dup = dups[0] if dups else None
        if dup is not None:
            # a needed task lists one dependency twice: nothing may run
            if o.started_tasks():
                V.append(Violation("C02", "task-executed-although-a-needed-task-lists-a-dependency-twice",
                                   {"task": dup, "started": o.started_tasks()[:4]}, i))
            elif inv.code == 0:
                V.append(Violation("C02", "duplicate-dependency-accepted", {"task": dup}, i))
            facts["nontrivial"].append("dup-dep")
            continue
        needed, cached, err = o.model_plan()
        flags = st.op.get("flags", {})
        if flags.get("check"):
            if o.starts() or any(k == "launchfail" for _, k, _, _ in o.events):
                V.append(Violation("C02", "check-flag-executed-a-task", {}, i))
            continue
        started = o.started_tasks()
        if err:
            if started:
                V.append(Violation("C02", "task-started-despite-flag-error", {"err": err, "started": started}, i))
            continue
        if inv.internal is not None and not st.op.get("signal"):
            V.append(Violation("C02", "internal-error %s at %s" % (inv.internal[0], inv.internal[1]),
                               {"internal": list(inv.internal)}, i))
            continue
        counts = {}
        for t in started:
            counts[t] = counts.get(t, 0) + 1
        for t, c in sorted(counts.items()):
            if c > 1:
                V.append(Violation("C02", "task-executed-more-than-once", {"task": t, "count": c}, i))
        target = st.op["target"]
        clo = M.closure(tasks, target) if target in tasks else set()
        for t in sorted(set(started)):
            if t not in clo:
                V.append(Violation("C02", "task-outside-closure-executed", {"task": t}, i))
            elif t not in needed:
                V.append(Violation("C02", "cached-or-hidden-task-executed", {"task": t}, i))
        F, S = fail_skip_sets(o, needed)
        faulty = bool(F) or st.op.get("signal") or flags.get("stop_early") and F
        if not st.op.get("signal"):
            expect_started = needed - S
            if not (flags.get("stop_early") and F):
                missing = expect_started - set(started)
                for t in sorted(missing):
                    V.append(Violation("C02", "needed-task-not-executed", {"task": t}, i))
        # cached ∩ executed = ∅
        reported_cached = [t for ti, kind, t, _, _ in o.printed if kind == "cached"]
        for t in reported_cached:
            if t in counts:
                V.append(Violation("C02", "task-reported-cached-and-executed", {"task": t}, i))
            if t in tasks and t not in cached and t not in counts and not err:
                V.append(Violation("C02", "task-reported-cached-without-reusable-version", {"task": t}, i))
        # progress counter
        prog = [(k_, n_) for ti, kind, t, k_, n_ in o.printed if kind in ("running", "skipping")]
        if prog:
            totals = {n_ for _, n_ in prog}
            if totals != {len(needed)}:
                V.append(Violation("C02", "progress-total-differs-from-number-of-tasks-to-run",
                                   {"totals": sorted(totals), "needed": len(needed)}, i))
            ks = [k_ for k_, _ in prog]
            if ks != list(range(1, len(ks) + 1)):
                V.append(Violation("C02", "progress-counter-not-sequential", {"ks": ks}, i))
        # new rows = experiments that exited 0 (only when nothing interfered)
        if st.after and isinstance(st.after["rows"], list) and not st.op.get("signal"):
            before = set(map(tuple, o.rows_before))
            new = [r for r in st.after["rows"] if tuple(r) not in before]
            ok_exps = set()
            for ti, k, t, x in o.events:
                if k == "exit" and x["status"] == 0 and t in tasks and tasks[t]["kind"] == "exp":
                    ok_exps.add(t)
            new_tasks = [r[0] for r in new]
            for t in new_tasks:
                if new_tasks.count(t) > 1:
                    V.append(Violation("C02", "several-versions-recorded-in-one-invocation", {"task": t}, i))
                    break
            if not (flags.get("stop_early") and F):
                if set(new_tasks) != ok_exps:
                    V.append(Violation("C02", "recorded-versions-differ-from-successful-experiments",
                                       {"new": sorted(set(new_tasks)), "ok": sorted(ok_exps)}, i))
        if needed:
            facts["nontrivial"].append("n%d-c%d" % (len(needed), len(cached)))
        if cached:
            facts.setdefault("reach", {})["cached_pruned"] = facts.get("reach", {}).get("cached_pruned", 0) + 1
    return V, facts


# ============================================================================= C03

def check_C03(run):
    V, facts = [], {"nontrivial": []}
    tasks = run.scn["tasks"]
    for i, st in run_steps(run):
        inv = st.inv
        if inv.killed or inv.deadlock is not None or st.op.get("signal"):
            continue
        flags = st.op.get("flags", {})
        if flags.get("check"):
            continue
        o = RunObs(run.scn, st)
        needed, cached, err = o.model_plan()
        if err:
            if inv.code == 0:
                V.append(Violation("C03", "flag-error-exit-zero", {"err": err}, i))
            continue
        if inv.internal is not None:
            V.append(Violation("C03", "internal-error %s at %s" % (inv.internal[0], inv.internal[1]),
                               {"internal": list(inv.internal)}, i))
            continue
        extra = set(st.op.get("combine_conflict", []))
        F, S = fail_skip_sets(o, needed, extra_fail=extra & needed)
        started = set(o.started_tasks())
        stop_early = bool(flags.get("stop_early"))
        SH = hidden_skips(tasks, needed, F, S)
        if not stop_early:
            for t in sorted(S & started):
                V.append(Violation("C03", "dependent-of-failed-task-started" + (HID if t in SH else ""),
                                   {"task": t}, i))
            for t in sorted((needed - S) - started):
                V.append(Violation("C03", "independent-task-not-run-after-failure" if F else "needed-task-not-run",
                                   {"task": t}, i))
            if F:
                if inv.code == 0:
                    V.append(Violation("C03", "exit-zero-despite-failure", {"failed": sorted(F)}, i))
                rf = o.report_failed
                if rf is None or sorted(rf) != sorted(F):
                    hid = HID if rf is not None and set(F) <= set(rf) and set(rf) - set(F) <= SH else ""
                    V.append(Violation("C03", "failed-report-differs" + hid,
                                       {"reported": rf, "expected": sorted(F)}, i))
                rs = o.report_skipped or []
                if sorted(rs) != sorted(S):
                    # tasks behind a started hidden task follow that task's real outcome
                    SHX = SH | {t for t in S if M.trans_deps(tasks, t) & SH}
                    hid = HID if set(S) - SHX <= set(rs) and set(rs) <= set(S) else ""
                    V.append(Violation("C03", "skipped-report-differs" + hid,
                                       {"reported": rs, "expected": sorted(S)}, i))
            else:
                if inv.code != 0:
                    V.append(Violation("C03", "exit-nonzero-without-failure", {"code": inv.code,
                                                                               "err": inv.err.decode("utf-8", "replace")[-300:]}, i))
                if o.report_failed:
                    V.append(Violation("C03", "failure-reported-without-failure", {"reported": o.report_failed}, i))
            # nobody is signalled in default mode
            for ti, k, t, x in o.events:
                if k == "kill" and x["state"] == "running":
                    V.append(Violation("C03", "running-task-signalled-without-stop-early", {"task": t}, i))
                    break
        else:
            _check_stop_early(o, inv, i, needed, F, S, V)
        if F:
            facts["nontrivial"].append("F%d-S%d-%s" % (len(F), len(S), "se" if stop_early else "df"))
            kinds = sorted({o.script_outcome(t)[1].split(":")[0] for t in F if o.script_outcome(t)[1]})
            facts.setdefault("reach", {})
            for kd in kinds:
                facts["reach"]["failkind_" + kd] = facts["reach"].get("failkind_" + kd, 0) + 1
    return V, facts


def _check_stop_early(o, inv, i, needed, F, S, V):
    # t0: the instant the first failure is observed (its "failed" line)
    t0 = None
    first_failed = None
    for ti, kind, t, _, _ in o.printed:
        if kind == "failed":
            t0, first_failed = ti, t
            break
    if not F:
        if inv.code != 0:
            V.append(Violation("C03", "exit-nonzero-without-failure", {"code": inv.code}, i))
        return
    if inv.code == 0:
        V.append(Violation("C03", "exit-zero-despite-failure", {"failed": sorted(F), "mode": "stop-early"}, i))
    if t0 is None:
        V.append(Violation("C03", "stop-early-no-failure-observed", {"expected_some_of": sorted(F)}, i))
        return
    running = {}
    at_t0 = None
    for ti, k, t, x in o.events:
        if ti > t0 and at_t0 is None:
            at_t0 = dict(running)
        if k == "start":
            if ti > t0:
                V.append(Violation("C03", "task-started-after-first-failure-with-stop-early",
                                   {"task": t, "first_failed": first_failed}, i))
            if x["proc"]:
                running[x["name"]] = t
        elif k == "exit":
            running.pop(x["name"], None)
    if at_t0 is None:
        at_t0 = dict(running)
    killed = {x["name"] for ti, k, t, x in o.events if k == "kill" and x["sig"] == "SIGTERM" and x["how"] == "group"}
    exited_later = {x["name"] for ti, k, t, x in o.events if k == "exit" and ti > t0}
    for name, t in sorted(at_t0.items()):
        # still running when the failure was observed: must get SIGTERM unless it exited by itself
        # before Conductor got to signalling
        if name not in killed and name not in exited_later:
            V.append(Violation("C03", "running-task-not-terminated-on-stop-early", {"task": t}, i))
    rf = o.report_failed or []
    truly_failed = set()
    for ti, k, t, x in o.events:
        if k == "exit" and x["status"] != 0 and x["how"] not in ("sigterm", "sigkill"):
            truly_failed.add(t)
        if k == "launchfail":
            truly_failed.add(t)
    truly_failed |= set(o.step.op.get("combine_conflict", []))
    for t in rf:
        if t not in truly_failed:
            V.append(Violation("C03", "stop-early-reports-task-that-did-not-fail", {"task": t}, i))
    if first_failed not in rf:
        V.append(Violation("C03", "stop-early-report-misses-first-failure", {"first": first_failed, "reported": rf}, i))


# ============================================================================= C04

def check_C04(run):
    V, facts = [], {"nontrivial": []}
    tasks = run.scn["tasks"]
    for i, st in run_steps(run, io_faulted=True):
        inv = st.inv
        if inv.killed:
            continue
        flags = st.op.get("flags", {})
        o = RunObs(run.scn, st)
        err = M.flag_error(flags, o.git)
        jobs = M.jobs_of(flags, run.scn.get("knobs", {}))
        if err or flags.get("check") or (isinstance(jobs, int) and jobs <= 0):
            continue
        running = {}  # name -> (task, slot)
        maxrun = 0
        seq_running = None
        reuse = False
        for ti, k, t, x in o.events:
            if k == "start":
                if t not in tasks:
                    continue
                par = bool(tasks[t].get("par")) and tasks[t]["kind"] in ("exp", "cmd")
                if seq_running is not None:
                    V.append(Violation("C04", "task-started-while-sequential-task-running",
                                       {"task": t, "sequential": seq_running}, i))
                if not par and running:
                    V.append(Violation("C04", "sequential-task-started-while-others-running",
                                       {"task": t, "kind": tasks[t]["kind"], "running": sorted(v[0] for v in running.values())}, i))
                if x["proc"]:
                    if len(running) + 1 > jobs:
                        V.append(Violation("C04", "more-than-jobs-tasks-running",
                                           {"jobs": jobs, "running": len(running) + 1}, i))
                    slot = x["slot"]
                    if par and jobs > 1:
                        if slot is None:
                            V.append(Violation("C04", "slot-missing-for-parallel-task", {"task": t}, i))
                        else:
                            try:
                                sv = int(slot)
                            except ValueError:
                                sv = -1
                            if not (0 <= sv < jobs):
                                V.append(Violation("C04", "slot-out-of-range", {"task": t, "slot": slot, "jobs": jobs}, i))
                            if any(v[1] == slot for v in running.values()):
                                V.append(Violation("C04", "slot-shared-by-concurrent-tasks", {"task": t, "slot": slot}, i))
                    else:
                        if slot is not None:
                            inherited = "COND_SLOT" in st.op.get("env", {})
                            V.append(Violation("C04", "slot-set-for-%s%s" % (
                                "sequential-task" if not par else "jobs-1",
                                "-inherited-from-environment" if inherited else ""),
                                {"task": t, "slot": slot}, i))
                    running[x["name"]] = (t, slot)
                    if not par:
                        seq_running = t
                    maxrun = max(maxrun, len(running))
            elif k == "exit":
                v = running.pop(x["name"], None)
                if v and seq_running == v[0]:
                    seq_running = None
        if maxrun >= 2:
            facts["nontrivial"].append("j%d-max%d" % (jobs, maxrun))
        elif o.proc_starts():
            facts["nontrivial"].append("j%d-seq" % jobs)
    return V, facts


CHECKS = {"C01": check_C01, "C02": check_C02, "C03": check_C03, "C04": check_C04, "C09": check_C09}


# ============================================================================= C05

def _dir_of(root, task, ts=None):
    return os.path.join(str(root), "cond-out", M.out_dir_rel(task, ts))


def _version_in_deps(entries, root, dep):
    """the version timestamp with which experiment `dep` appears in a COND_DEPS list (or None)"""
    base = _dir_of(root, dep) + "."
    for e in entries:
        if e.startswith(base):
            try:
                return int(e[len(base):])
            except ValueError:
                return e
    return None


def check_C05(run):
    V, facts = [], {"nontrivial": [], "reach": {}}
    tasks = run.scn["tasks"]
    root = run.root
    reach = facts["reach"]

    def bump(k):
        reach[k] = reach.get(k, 0) + 1

    for i, st in enumerate(run.steps):
        inv = st.inv
        if inv is None or inv.killed or inv.deadlock is not None:
            continue
        kind = st.op["op"]
        rows = st.before["rows"] if st.before and isinstance(st.before["rows"], list) else []
        git = M.GitView(st.git, st.disable_git)
        if kind == "where":
            t = st.op["target"]
            f = st.op.get("flags", {})
            d = tasks[t]
            expect = None
            if d["kind"] == "exp":
                sel = M.select_version(t, rows, git)
                if sel is not None:
                    expect = _dir_of(root, t, sel[1])
                    bump("where_selected")
                else:
                    bump("where_none")
            elif d["kind"] in ("cmd", "combine"):
                expect = _dir_of(root, t)
            if expect is not None and not os.path.relpath(expect, str(root / "cond-out")) in (st.before or {}).get("tree", {}) \
                    and not f.get("nonexist"):
                expect = None
            got = inv.out.decode("utf-8", "replace").strip()
            if expect is None:
                if inv.code == 0:
                    V.append(Violation("C05", "where-printed-a-location-for-a-task-without-one",
                                       {"task": t, "got": got}, i))
            else:
                if f.get("project"):
                    expect = os.path.relpath(expect, str(root))
                if inv.code != 0 or got != expect:
                    V.append(Violation("C05", "where-differs-from-documented-selection",
                                       {"task": t, "got": got, "expected": expect, "code": inv.code,
                                        "err": inv.err.decode("utf-8", "replace")[-300:]}, i))
            facts["nontrivial"].append("where-" + d["kind"])
            continue
        if kind != "run":
            continue
        o = RunObs(run.scn, st)
        flags = st.op.get("flags", {})
        needed, cached, err = o.model_plan()
        started = o.started_tasks()
        if err:
            bump("flagerr_" + err)
            if inv.code == 0:
                V.append(Violation("C05", "invalid-flag-combination-accepted:" + err, {"flags": flags}, i))
            if started:
                V.append(Violation("C05", "task-started-despite-flag-error:" + err, {"started": started}, i))
            facts["nontrivial"].append("flagerr")
            continue
        if inv.internal is not None:
            V.append(Violation("C05", "internal-error %s at %s" % (inv.internal[0], inv.internal[1]),
                               {"internal": list(inv.internal)}, i))
            continue
        F, S = fail_skip_sets(o, needed)
        exps_needed = {t for t in needed if tasks[t]["kind"] == "exp"} - S
        exps_started = {t for t in started if t in tasks and tasks[t]["kind"] == "exp"}
        mode = "again" if flags.get("again") else ("at-least" if (flags.get("at_least") is not None or flags.get("this_commit")) else "default")
        for t in sorted(exps_started - exps_needed):
            sel = M.select_version(t, rows, git)
            V.append(Violation("C05", "experiment-rerun-although-compatible-version-exists (%s)" % mode,
                               {"task": t, "selected": sel, "head": git.head}, i))
        for t in sorted(exps_needed - exps_started):
            sel = M.select_version(t, rows, git)
            V.append(Violation("C05", "experiment-not-run-although-no-compatible-version (%s)" % mode,
                               {"task": t, "selected": sel, "head": git.head,
                                "rows": [r for r in rows if r[0] == t]}, i))
        # dependents see the selected cached version
        for sp in inv.spawns:
            t = sp["task"]
            if t not in tasks:
                continue
            entries = [e for e in sp["env"].get("COND_DEPS", "").split(":") if e]
            for d in tasks[t]["deps"]:
                if tasks[d]["kind"] != "exp" or d in exps_started:
                    continue
                sel = M.select_version(d, rows, git)
                got = _version_in_deps(entries, root, d)
                exp_ts = sel[1] if sel else None
                if got != exp_ts:
                    V.append(Violation("C05", "dependent-given-a-version-other-than-the-selected-one",
                                       {"task": t, "dep": d, "got": got, "expected": exp_ts}, i))
                else:
                    bump("deps_selected_checked")
        # the rule speaks of "the recorded version whose commit is ...": a version produced now has to be
        # recorded under the commit that is checked out now (none without git / with git disabled / before
        # the first commit), or every later selection is off
        rows_after = st.after["rows"] if st.after is not None and isinstance(st.after["rows"], list) else None
        if rows_after is not None and not inv.killed:
            exp_commit = git.head_hash if (git.uses_git and git.head) else None
            known = {tuple(r) for r in rows}
            for r in rows_after:
                if tuple(r) not in known and r[0] in tasks:
                    if r[2] != exp_commit:
                        V.append(Violation("C05", "new-version-recorded-under-another-commit-than-the-checked-out-one (%s)" % mode,
                                           {"row": list(r), "expected": exp_commit}, i))
                    else:
                        bump("new_version_commit_checked")
        if git.uses_git and git.head:
            # how interesting was the choice?
            for t in tasks:
                if tasks[t]["kind"] != "exp":
                    continue
                mine = [r for r in rows if r[0] == t]
                if len(mine) >= 2:
                    bump("choice_among_versions")
                if any(r[2] is not None and not git.is_ancestor(r[2], git.head_hash) for r in mine):
                    bump("non_ancestor_version_present")
                if any(r[2] is None for r in mine) and any(r[2] is not None for r in mine):
                    bump("mixed_null_and_commit_versions")
                    if not any(r[2] is not None and git.is_ancestor(r[2], git.head_hash) for r in mine):
                        bump("commitless_plus_foreign_version_and_no_ancestor_version")
                anc = [r for r in mine if r[2] is not None and git.is_ancestor(r[2], git.head_hash)]
                dists = {git.distance(git.head_hash, r[2]) for r in anc}
                if len(dists) >= 2:
                    bump("choice_between_ancestor_versions_at_different_distances")
                    # would a first-parent-only distance rank them differently?
                    def fp(h):
                        n, c, chain = git.name_of(git.head_hash), 0, []
                        cur = n
                        seen = set()
                        while cur is not None and cur not in seen:
                            seen.add(cur)
                            ps = git.state["commits"][cur]
                            cur = ps[0] if ps else None
                        return len(seen - git.ancestors(git.name_of(h)))
                    best_true = min(anc, key=lambda r_: (git.distance(git.head_hash, r_[2]), -r_[1]))
                    best_fp = min(anc, key=lambda r_: (fp(r_[2]), -r_[1]))
                    if best_true != best_fp:
                        bump("merge_where_first_parent_distance_would_pick_another_version")
        if needed or cached:
            facts["nontrivial"].append("%s-n%d-c%d-%s" % (mode, len(needed), len(cached),
                                                         "git" if git.uses_git and git.head else "nogit"))
    return V, facts


CHECKS["C05"] = check_C05


# ============================================================================= C07

def _render(v):
    if isinstance(v, bool):
        return "true" if v else "false"
    return str(v)


def check_C07(run):
    V, facts = [], {"nontrivial": [], "reach": {}}
    tasks = run.scn["tasks"]
    root = str(run.root)
    reach = facts["reach"]
    for i, st in run_steps(run):
        inv = st.inv
        if inv.killed or not inv.spawns:
            continue
        o = RunObs(run.scn, st)
        own_dir = {}
        for sp in inv.spawns:
            if sp["task"] in tasks and sp["env"].get("COND_OUT"):
                own_dir.setdefault(sp["task"], sp["env"]["COND_OUT"])
        seen_dep_dir = {}
        for sp in inv.spawns:
            t = sp["task"]
            if t not in tasks:
                V.append(Violation("C07", "spawned-command-is-not-a-task-command", {"argv": sp["argv"]}, i))
                continue
            d = tasks[t]
            pkg, name = split_tid(t)
            env = sp["env"]
            # bash, -c, run + args + options
            if sp["executable"] != ["/bin/bash"] or sp["argv"][:2] != ["/bin/bash", "-c"] or len(sp["argv"]) != 3:
                V.append(Violation("C07", "task-not-run-under-bash", {"task": t, "argv": sp["argv"], "exe": sp["executable"]}, i))
            try:
                toks = shlex.split(sp["argv"][2])
            except ValueError:
                toks = None
            exp_toks = ["sim", ("@" + d["xg"]["g"]) if d.get("xg") else t] + [_render(a) for a in d.get("args", [])] + \
                ["--%s=%s" % (k, _render(v)) for k, v in d.get("options", {}).items()]
            vals = [_render(a) for a in d.get("args", [])] + [_render(v) for v in d.get("options", {}).values()]
            if any(re.search(r"[^\w./:=@+,%-]", v, re.ASCII) and v.isascii() for v in vals):
                # a value bash interprets: what bash makes of the run string is only the same if the string is
                # the same (up to the blanks between words that the serialisation itself puts there)
                plain = " ".join(["sim", ("@" + d["xg"]["g"]) if d.get("xg") else t] + vals[:len(d.get("args", []))] +
                                 ["--%s=%s" % (k, _render(v)) for k, v in d.get("options", {}).items()])
                got_s = sp["argv"][2] if len(sp["argv"]) > 2 else ""
                if got_s.strip(" ") != plain.strip(" ") and re.sub(" +", " ", got_s).strip() != re.sub(" +", " ", plain).strip():
                    V.append(Violation("C07", "run-string-is-not-run-args-options-as-declared",
                                       {"task": t, "got": got_s, "expected": plain}, i))
                else:
                    reach["run_strings_with_shell_syntax_compared"] = reach.get("run_strings_with_shell_syntax_compared", 0) + 1
            elif toks != exp_toks:
                V.append(Violation("C07", "command-line-differs-from-run-args-options",
                                   {"task": t, "got": toks, "expected": exp_toks}, i))
            exp_cwd = os.path.normpath(os.path.join(root, pkg))
            if sp["cwd"] is None or os.path.normpath(sp["cwd"]) != exp_cwd:
                V.append(Violation("C07", "working-directory-is-not-the-cond-file-directory",
                                   {"task": t, "got": sp["cwd"], "expected": exp_cwd}, i))
            if env.get("COND_NAME") != name:
                V.append(Violation("C07", "COND_NAME-wrong", {"task": t, "got": env.get("COND_NAME")}, i))
            out = env.get("COND_OUT")
            base = os.path.join(root, "cond-out", M.out_dir_rel(t))
            ok_out = False
            if out is not None and os.path.isabs(out):
                if d["kind"] == "cmd":
                    ok_out = (out == base)
                else:
                    ok_out = re.fullmatch(re.escape(base) + r"\.[1-9][0-9]*", out) is not None
            if not ok_out:
                V.append(Violation("C07", "COND_OUT-not-the-identifier-determined-directory",
                                   {"task": t, "got": out, "expected_base": base}, i))
            elif sp["listing"] is None:
                V.append(Violation("C07", "COND_OUT-does-not-exist-at-spawn", {"task": t, "got": out}, i))
            # COND_DEPS
            raw = env.get("COND_DEPS")
            entries = raw.split(":") if raw else []
            expected = []
            for dep in d["deps"]:
                k = tasks[dep]["kind"]
                if k == "group":
                    continue
                if k in ("cmd", "combine"):
                    expected.append(os.path.join(root, "cond-out", M.out_dir_rel(dep)))
                else:
                    if dep in own_dir:
                        expected.append(own_dir[dep])
                    else:
                        sel = M.select_version(dep, o.rows_before, o.git)
                        if sel is not None:
                            expected.append(os.path.join(root, "cond-out", M.out_dir_rel(dep, sel[1])))
            if raw is None:
                V.append(Violation("C07", "COND_DEPS-unset", {"task": t}, i))
            elif entries != expected:
                sig = "COND_DEPS-differs"
                if sorted(entries) == sorted(expected):
                    sig = "COND_DEPS-not-in-declared-order"
                elif len(entries) == len(expected):
                    sig = "COND_DEPS-lists-another-version-or-directory"
                V.append(Violation("C07", sig, {"task": t, "got": entries, "expected": expected}, i))
            for dep, e in zip([x for x in d["deps"] if tasks[x]["kind"] != "group"], entries):
                if dep in seen_dep_dir and seen_dep_dir[dep] != e:
                    V.append(Violation("C07", "dependents-see-different-versions-of-one-dependency",
                                       {"dep": dep, "a": seen_dep_dir[dep], "b": e}, i))
                seen_dep_dir.setdefault(dep, e)
            if len(d["deps"]) >= 2:
                reach["multi_dep_spawn"] = reach.get("multi_dep_spawn", 0) + 1
            facts["nontrivial"].append("%s-d%d-a%d-o%d" % (d["kind"], len(expected), len(d.get("args", [])),
                                                           len(d.get("options", {}))))
        # the version recorded for an execution is the one its COND_OUT was derived from
        if st.after is not None and isinstance(st.after["rows"], list) and st.before is not None:
            bset = {tuple(r) for r in (st.before["rows"] if isinstance(st.before["rows"], list) else [])}
            new_rows = [r for r in st.after["rows"] if tuple(r) not in bset]
            for r in new_rows:
                mine = [sp for sp in inv.spawns if sp["task"] == r[0]]
                if len(mine) == 1:
                    want = os.path.join(root, "cond-out", M.out_dir_rel(r[0], r[1]))
                    if mine[0]["env"].get("COND_OUT") != want:
                        V.append(Violation("C07", "recorded-version-differs-from-the-COND_OUT-the-task-was-given",
                                           {"task": r[0], "recorded": r[1], "COND_OUT": mine[0]["env"].get("COND_OUT")}, i))
        # inside the task: conductor.lib
        spawn_by_name = {"%s#%d" % (sp["task"], sp["execno"]): sp for sp in inv.spawns}
        for e in inv.trace:
            if e[0] != "lib":
                continue
            sp = spawn_by_name.get(e[1])
            if sp is None:
                continue
            res = e[2]
            env = sp["env"]
            raw = env.get("COND_DEPS", "")
            want_deps = raw.split(":") if raw else []
            if res.get("out") != env.get("COND_OUT"):
                V.append(Violation("C07", "lib.get_output_path-differs-from-COND_OUT", {"got": res.get("out")}, i))
            if res.get("deps") != want_deps:
                sig = "lib.get_deps_paths-differs"
                if not want_deps:
                    sig = "lib.get_deps_paths-not-empty-for-task-without-dependencies"
                V.append(Violation("C07", sig, {"got": res.get("deps"), "expected": want_deps}, i))
            if res.get("in_out") != os.path.join(env.get("COND_OUT", ""), "sub/f.txt"):
                V.append(Violation("C07", "lib.in_output_dir-differs", {"got": res.get("in_out")}, i))
            reach["lib_evaluated"] = reach.get("lib_evaluated", 0) + 1
    return V, facts


CHECKS["C07"] = check_C07


# ============================================================================= C08

def _subtree(tree, rel):
    pre = rel + "/"
    return {k: v for k, v in tree.items() if k == rel or k.startswith(pre)}


def check_C08(run):
    V, facts = [], {"nontrivial": [], "reach": {}}
    tasks = run.scn["tasks"]
    root = str(run.root)
    reach = facts["reach"]
    for i, st in enumerate(run.steps):
        inv = st.inv
        if inv is None:
            continue
        kind = st.op["op"]
        before, after = st.before, st.after
        rows_b = before["rows"] if before and isinstance(before["rows"], list) else []
        if kind == "run" and not inv.killed:
            max_ts = max([r[1] for r in rows_b], default=0)
            used = set()
            for sp in inv.spawns:
                t = sp["task"]
                if t not in tasks or tasks[t]["kind"] != "exp":
                    continue
                out = sp["env"].get("COND_OUT", "")
                m = re.search(r"\.task\.([0-9]+)$", out)
                if not m:
                    continue
                ts = int(m.group(1))
                rel = os.path.relpath(out, os.path.join(root, "cond-out"))
                if ts <= max_ts:
                    V.append(Violation("C08", "version-id-not-greater-than-recorded-versions",
                                       {"task": t, "ts": ts, "max_recorded": max_ts}, i))
                if rel in (before or {}).get("tree", {}):
                    leftover = any(k != rel for k in _subtree(before["tree"], rel))
                    V.append(Violation("C08", "output-directory-existed-before-the-execution" +
                                       ("" if leftover else " (empty)"),
                                       {"task": t, "dir": rel}, i))
                elif sp["listing"] is not None:
                    junk = [x for x in sp["listing"] if x[0] not in ("stdout.log", "stderr.log") or x[1] != 0]
                    if junk:
                        V.append(Violation("C08", "output-directory-not-empty-at-start", {"task": t, "junk": junk}, i))
                if out in used:
                    V.append(Violation("C08", "two-executions-share-one-output-directory", {"dir": rel}, i))
                used.add(out)
                if ts > sp["clock"] + 1:
                    reach["version_id_ahead_of_clock"] = reach.get("version_id_ahead_of_clock", 0) + 1
                facts["nontrivial"].append("spawn")
        if kind in ("clean",) or before is None or after is None:
            continue
        # recorded version directories are never touched
        changed = 0
        for r in rows_b:
            rel = M.out_dir_rel(r[0], r[1])
            b = _subtree(before["tree"], rel)
            a = _subtree(after["tree"], rel)
            if b and a != b:
                what = "deleted" if not a else "modified"
                V.append(Violation("C08", "recorded-version-directory-%s-by-%s" % (what, kind),
                                   {"dir": rel, "diff": sorted(set(a.items()) ^ set(b.items()))[:6]}, i))
                changed += 1
        if rows_b:
            facts["nontrivial"].append("keep-%s" % kind)
    return V, facts


CHECKS["C08"] = check_C08


# ============================================================================= C06 (and shared durable-state checks)

from . import invariants as I  # noqa: E402


def durable_violations(scn, op, git, before, after, trace, root, arch_path=None):
    """Invariant I of DESIGN.md C06 on a surviving disk state.  Returns [(signature, detail)]."""
    probs = []
    rows_b = before["rows"] if before and isinstance(before["rows"], list) else []
    rows_a = after["rows"]
    if isinstance(rows_a, str):
        if rows_b:
            probs.append(("version-index-unreadable-after-%s" % op["op"], {"error": rows_a}))
        return probs
    if rows_a is None:
        return probs
    kind = op["op"]
    bset = {tuple(r) for r in rows_b}
    ok = I.successful_execs(trace)
    tree_a, tree_b = after["tree"], (before or {}).get("tree", {})
    exp_commit = git.head_hash if (git.uses_git and git.head) else None
    exp_dirty = 1 if (exp_commit and git.dirty) else 0
    for r in rows_a:
        rel = M.out_dir_rel(r[0], r[1])
        if tuple(r) in bset:
            if kind == "clean":
                continue
            b, a = I.subtree(tree_b, rel), I.subtree(tree_a, rel)
            if a != b:
                probs.append(("recorded-version-directory-%s-by-%s" % ("lost" if not a else "changed", kind),
                              {"dir": rel}))
            continue
        if kind == "run":
            names = sorted(n for n in ok if n.rsplit("#", 1)[0] == r[0])
            if not names:
                probs.append(("version-recorded-for-execution-that-did-not-exit-0", {"row": list(r)}))
                continue
            execno = int(names[0].rsplit("#", 1)[1])
            bg_here = any(e[0] == "bgspawn" and e[1] == names[0] + "~bg" for e in trace)
            for what, det in I.check_version_dir(scn, op, r[0], r[1], tree_a, root, execno, with_bg=bg_here):
                probs.append((what, det))
            if r[2] != exp_commit or r[3] != exp_dirty:
                probs.append(("version-recorded-with-wrong-commit-or-dirty-flag",
                              {"row": list(r), "expected": [exp_commit, exp_dirty]}))
        elif kind == "restore":
            at = I.archive_trees(arch_path) if arch_path else None
            if at is None:
                probs.append(("version-recorded-from-unreadable-archive", {"row": list(r)}))
                continue
            want = I.subtree(at, rel)
            got = I.subtree(tree_a, rel)
            if not got:
                probs.append(("recorded-version-without-directory", {"dir": rel, "by": "restore"}))
            elif got != want:
                missing = sorted(set(want) - set(got))[:5]
                probs.append(("restored-version-directory-incomplete", {"dir": rel, "missing": missing}))
        else:
            probs.append(("version-recorded-by-%s" % kind, {"row": list(r)}))
    return probs


def check_C06(run):
    V, facts = [], {"nontrivial": [], "reach": {}, "evaluations": 0}
    reach = facts["reach"]
    for i, st in enumerate(run.steps):
        inv = st.inv
        if inv is None or st.before is None or st.after is None:
            continue
        if st.op["op"] == "clean":
            continue
        git = M.GitView(st.git, st.disable_git)
        arch = getattr(st, "archive_path", None)
        for sig, det in durable_violations(run.scn, st.op, git, st.before, st.after, inv.trace, run.root, arch):
            V.append(Violation("C06", sig + (" [after kill]" if inv.killed else ""), det, i))
        rows_b = st.before["rows"] if isinstance(st.before["rows"], list) else []
        rows_a = st.after["rows"] if isinstance(st.after["rows"], list) else []
        if len(rows_a) > len(rows_b):
            facts["nontrivial"].append("newrows-%s%s" % (st.op["op"], "-killed" if inv.killed else ""))
        if inv.killed:
            reach["history_kill_%s" % st.op["op"]] = reach.get("history_kill_%s" % st.op["op"], 0) + 1
    for rec in getattr(run, "enum", []):
        facts["evaluations"] += 1
        if rec["killed"]:
            facts["nontrivial"].append("kill@%s" % rec["where"])
            reach["kills_enumerated"] = reach.get("kills_enumerated", 0) + 1
            w = rec["where"] or ""
            for key, pat in (("kill_inside_finish_or_commit", ("commit", "insert_output_version", "serialize_json", "finish")),
                             ("kill_inside_restore_copy", ("copytree", "copy2", "copyfile", "_copytree")),
                             ("kill_inside_rmtree", ("rmtree", "_rmtree_safe_fd"))):
                if any(p_ in w for p_ in pat):
                    reach[key] = reach.get(key, 0) + 1
        if rec.get("mode") == "signal" and rec.get("fired"):
            facts["nontrivial"].append("signal@%s" % rec["where"])
            reach["signals_enumerated"] = reach.get("signals_enumerated", 0) + 1
        for sig, det in rec["violations"]:
            V.append(Violation("C06", sig + " [%s in %s]" % ("signal" if rec.get("mode") == "signal" else "kill", rec["op"]),
                               dict(det, k=rec["k"], where=rec["where"]), rec["step"]))
    if getattr(run, "enum_info", None):
        facts["enum_info"] = run.enum_info
    return V, facts


CHECKS["C06"] = check_C06


# ============================================================================= C12

def restore_violations(before, after, inv_code, killed, archive_rows, internal=None, arch_path=None):
    probs = []
    rows_b = before["rows"] if before and isinstance(before["rows"], list) else []
    rows_a = after["rows"]
    if isinstance(rows_a, str):
        if rows_b:
            probs.append(("version-index-unreadable-after-restore", {"error": rows_a}))
        return probs
    rows_a = rows_a or []
    success = (inv_code == 0 and not killed)
    bset, aset = {tuple(r) for r in rows_b}, {tuple(r) for r in rows_a}
    if killed and archive_rows is not None and aset == bset | {tuple(r) for r in archive_rows} and aset != bset:
        # the kill came after the restore had committed: that is the "all" of all-or-nothing
        success = True
    dup = [r for r in (archive_rows or []) if (r[0], r[1]) in {(b[0], b[1]) for b in rows_b}]
    if dup and aset != bset:
        # the archive contains a version that is already recorded: this restore cannot complete, whatever it
        # reports, and must leave the recorded versions as they were
        probs.append(("restore-changed-recorded-versions-although-archive-holds-an-already-recorded-version",
                      {"already_recorded": [list(r) for r in dup[:3]], "gained": sorted(aset - bset)[:4],
                       "exit": inv_code}))
    elif not success:
        if aset != bset:
            gained, lost = sorted(aset - bset), sorted(bset - aset)
            what = "partial-restore-left-recorded-versions" if gained and not lost else "failed-restore-changed-recorded-versions"
            probs.append((what + ("-after-kill" if killed else ""), {"gained": gained[:4], "lost": lost[:4]}))
    else:
        at = I.archive_trees(arch_path) if arch_path and os.path.exists(arch_path) else None
        if at is not None and archive_rows is not None and not killed:
            for r in archive_rows:
                rel = M.out_dir_rel(r[0], r[1])
                if tuple(r) in aset and tuple(r) not in bset and rel not in (before or {}).get("tree", {}):
                    want, got = I.subtree(at, rel), I.subtree(after["tree"], rel)
                    if want and got and got != want:
                        # "has its directory": the directory of the archive, not a part of it
                        probs.append(("successful-restore-recorded-an-incomplete-directory",
                                      {"dir": rel, "missing": sorted(set(want) - set(got))[:4]}))
        if archive_rows is None:
            probs.append(("restore-reported-success-for-unreadable-archive", {}))
        else:
            for r in archive_rows:
                rel = M.out_dir_rel(r[0], r[1])
                if tuple(r) not in aset:
                    probs.append(("successful-restore-did-not-record-a-version", {"row": list(r)}))
                elif after["tree"].get(rel) != ("d",):
                    probs.append(("successful-restore-recorded-version-without-directory", {"row": list(r)}))
                elif rel in (before or {}).get("tree", {}) and tuple(r) not in bset and not killed:
                    # never overwrites: the place was taken by something restore did not put there
                    probs.append(("restore-succeeded-over-a-pre-existing-directory", {"dir": rel}))
    # existing version directories are never modified
    for r in rows_b:
        rel = M.out_dir_rel(r[0], r[1])
        b, a = I.subtree(before["tree"], rel), I.subtree(after["tree"], rel)
        if b and a != b:
            probs.append(("restore-modified-an-existing-version-directory", {"dir": rel}))
    # ... nor is a directory that stood, unrecorded, in the place of one of the archive's versions (left by a failed
    # execution, or its index row was lost): restore did not make it and may neither fill nor remove it, least of all
    # while "cleaning up" after a failure (seeded change C12h-1)
    for r in (archive_rows or []):
        rel = M.out_dir_rel(r[0], r[1])
        if tuple(r) in bset or not before or before["tree"].get(rel) != ("d",):
            continue
        b, a = I.subtree(before["tree"], rel), I.subtree(after["tree"], rel)
        if a != b and not (success and not killed):     # (the successful case is reported above)
            probs.append(("unsuccessful-restore-modified-or-removed-a-pre-existing-directory",
                          {"dir": rel, "still_there": after["tree"].get(rel) == ("d",)}))
    return probs


def _intact_archive_of(st):
    """the archive a restore step was given, if it was given an undamaged one.  (A damaged copy cannot serve
    as the reference, and the original must not either: GNU tar exits 0 for a tar stream that is cut at a
    member boundary, so a restore of such a copy legitimately completes with what the stream holds - every
    listed version recorded, each with its directory - and nothing in Conductor could tell.)"""
    if st.op.get("corrupt"):
        return None
    return getattr(st, "archive_path", None)


def check_C12(run):
    V, facts = [], {"nontrivial": [], "reach": {}, "evaluations": 0}
    reach = facts["reach"]
    for i, st in enumerate(run.steps):
        inv = st.inv
        if inv is None or st.op["op"] != "restore" or st.before is None or st.after is None:
            continue
        for sig, det in restore_violations(st.before, st.after, inv.code, inv.killed, st.archive_info,
                                           arch_path=_intact_archive_of(st)):
            V.append(Violation("C12", sig, det, i))
        if st.op.get("tar_killed"):
            reach["tar_child_killed_by_signal"] = reach.get("tar_child_killed_by_signal", 0) + 1
        if any((r[0], r[1]) in {(b[0], b[1]) for b in (st.before["rows"] if isinstance(st.before["rows"], list) else [])}
               for r in (st.archive_info or [])):
            reach["archive_holds_already_recorded_version"] = reach.get("archive_holds_already_recorded_version", 0) + 1
        outcome = "ok" if inv.code == 0 else "fail"
        corrupt = (st.op.get("corrupt") or {}).get("kind", "intact")
        rows_b = st.before["rows"] if isinstance(st.before["rows"], list) else []
        prior = "empty" if not rows_b else "rows%d" % min(len(rows_b), 3)
        facts["nontrivial"].append("%s-%s-%s" % (outcome, corrupt, prior))
        reach["restore_%s_%s" % (outcome, corrupt)] = reach.get("restore_%s_%s" % (outcome, corrupt), 0) + 1
        err = inv.err.decode("utf-8", "replace")
        if "already exist" in err or "DuplicateTaskOutput" in err or (inv.internal and "FileExists" in inv.internal[0]):
            reach["restore_duplicate_or_preexisting"] = reach.get("restore_duplicate_or_preexisting", 0) + 1
    for rec in getattr(run, "enum", []):
        facts["evaluations"] += 1
        if rec["killed"]:
            facts["nontrivial"].append("kill@%s" % rec["where"])
            reach["kills_enumerated"] = reach.get("kills_enumerated", 0) + 1
            if rec.get("dirs_copied"):
                reach["restore_killed_after_a_directory_was_copied"] = reach.get("restore_killed_after_a_directory_was_copied", 0) + 1
        for sig, det in rec["violations"]:
            V.append(Violation("C12", sig, dict(det, k=rec["k"], where=rec["where"]), rec["step"]))
    if getattr(run, "enum_info", None):
        facts["enum_info"] = run.enum_info
    return V, facts


CHECKS["C12"] = check_C12


# ============================================================================= C16

ABORT_MSG = "Conductor's execution has been aborted by the user."


def abort_violations(scn, op, before, snap, inv):
    """what must hold after SIGINT/SIGTERM reached `cond run` (DESIGN.md C16)"""
    probs = []
    sent = [e for e in inv.trace if e[0] == "sigsent"]
    if not sent:
        return probs, False
    ev = sent[0]
    live = list(ev[4])
    where = ev[3]
    in_del = bool(ev[5]) if len(ev) > 5 else False
    ti_sent = inv.trace.index(ev)
    ti_done = next((j for j, e in enumerate(inv.trace) if e[0] == "main_done"), len(inv.trace))
    termed = {e[1] for e in inv.trace if e[0] == "kill" and e[2] == "SIGTERM" and e[3] == "group"}
    exited_before_end = {e[1] for j, e in enumerate(inv.trace) if e[0] == "exit" and j < ti_done}
    # launch window of a process: from its spawn until the main thread next prints a status line or
    # blocks (by then the executor has registered it)
    in_launch = set()
    for j in range(ti_sent - 1, -1, -1):
        e = inv.trace[j]
        if e[0] in ("blk", "out"):
            break
        if e[0] == "spawn":
            in_launch.add(e[1])
    swallowed = in_del
    for name in live:
        if name in termed or name in exited_before_end:
            continue
        tag = "[process-being-launched]" if name in in_launch else "[registered-process]"
        probs.append(("running-task-left-running-without-SIGTERM " + tag, {"process": name, "live": live}))
    # A signal that arrives while the main thread is blocked in a system call (a write to its own stalled stdout:
    # paused pager, Ctrl-S) interrupts that call and is acted upon at once.  If the call is restarted instead
    # (handler installed with SA_RESTART) the Python-level handler cannot run until the call completes - the
    # tasks run on for as long as the stall lasts (the simulated reader only resumes when nothing else can happen).
    held = [e for e in inv.trace[ti_sent:] if e[0] == "restarted-call-holds-signal" and e[1] == "stdout-stalled"]
    if live and held:
        probs.append(("interrupt-not-acted-upon-while-blocked-on-own-stdout (tasks kept running)", {"live": live}))
    spawned_after = [e[1] for e in inv.trace[ti_sent:ti_done] if e[0] == "spawn"]
    for name in spawned_after:
        if name not in termed and name not in exited_before_end:
            probs.append(("task-started-after-the-interrupt-and-left-running", {"process": name}))
    # nothing unfinished is recorded
    rows_b = {tuple(r) for r in (before["rows"] if before and isinstance(before["rows"], list) else [])}
    rows_a = snap["rows"] if isinstance(snap["rows"], list) else []
    ok = I.successful_execs(inv.trace)
    for r in rows_a:
        if tuple(r) in rows_b:
            continue
        if not any(n.rsplit("#", 1)[0] == r[0] for n in ok):
            probs.append(("version-recorded-for-unfinished-task", {"row": list(r)}))
    # aborted, not an internal error
    err = inv.err.decode("utf-8", "replace")
    tag = " [signal-arrived-inside-a-destructor]" if in_del else ""
    if inv.deadlock is not None:
        probs.append(("hang-after-interrupt" + tag, {"blocked": inv.deadlock}))
    elif getattr(inv, "sigdeath", None):
        # the program itself had put the default disposition back (its command was over, nothing left to
        # clean up) and the signal ended the process: dying from the signal is the report.  Whatever was
        # still in flight or got recorded is judged above.
        pass
    elif inv.internal is not None and inv.internal[0] == "BrokenPipeError" and op.get("stdout_gone_on_signal"):
        # injected: the reader of Conductor's own stdout went away together with the interrupt.  Nothing can
        # be reported there any more; what is demanded above (SIGTERM for everything in flight, nothing
        # unfinished recorded) still holds, and the exit status is non-zero (uncaught exception)
        pass
    elif inv.internal is not None:
        # had the command already reported its final failure when the signal arrived?  (then every task
        # had been dealt with and only the error report / exit was left)
        reported = any(e[0] in ("out", "errout") and ("Task failed." in e[1] or "Failed task(s):" in e[1]
                                                      or e[1].startswith("ERROR:"))
                       for e in inv.trace[:ti_sent])
        termed_before = {e[1] for e in inv.trace[:ti_sent] if e[0] == "kill" and e[2] == "SIGTERM"}
        if inv.internal[0] == "ConductorAbort" and reported and not [n for n in live if n not in termed_before]:
            probs.append(("abort-escaped-as-traceback [signal-arrived-after-the-final-failure-report]" + tag,
                          {"internal": list(inv.internal)[:3]}))
        else:
            probs.append(("internal-error-instead-of-abort %s at %s%s" % (inv.internal[0], inv.internal[1], tag),
                          {"internal": list(inv.internal)[:3]}))
    elif inv.code == 0:
        probs.append(("interrupt-ignored-exit-0" + tag, {"spawned_after": spawned_after}))
    elif ABORT_MSG not in err:
        probs.append(("exit-nonzero-but-not-reported-as-abort" + tag, {"err": err[-300:]}))
    if inv.exit_hang:
        probs.append(("process-exit-blocked-by-unfinished-tee-threads", {}))
    again = [e for e in inv.trace if e[0] == "sigsent_again"]
    if again and probs:
        # the first signal alone is handled correctly at this check point or it is not - either way the second
        # one is part of the story: name where it landed
        where = "%s [second-signal-at %s]" % (where, again[0][3])
    return [(what + " window=" + str(where), det) for what, det in probs], True


def check_C16(run):
    V, facts = [], {"nontrivial": [], "reach": {}, "evaluations": 0}
    reach = facts["reach"]
    # random single signals inside ordinary histories
    for i, st in run_steps(run):
        if st.op.get("signal") and st.before is not None and st.after is not None and not st.inv.killed:
            probs, fired = abort_violations(run.scn, st.op, st.before, st.after, st.inv)
            for sig, det in probs:
                V.append(Violation("C16", sig, det, i))
    for rec in getattr(run, "enum", []):
        facts["evaluations"] += 1
        if rec.get("fired"):
            facts["nontrivial"].append("sig@%s/%d" % (rec["where"], rec.get("inflight", 0)))
            nfl = rec.get("inflight", 0)
            key = "abort_with_%s_in_flight" % ("0" if nfl == 0 else "1" if nfl == 1 else "2plus")
            reach[key] = reach.get(key, 0) + 1
            reach["signals_delivered"] = reach.get("signals_delivered", 0) + 1
            reach["SIG" + rec["sig"]] = reach.get("SIG" + rec["sig"], 0) + 1
        for sig, det in rec["violations"]:
            V.append(Violation("C16", sig, dict(det, k=rec["k"], sig=rec["sig"]), rec["step"]))
    if getattr(run, "enum_info", None):
        facts["enum_info"] = run.enum_info
    return V, facts


CHECKS["C16"] = check_C16


# ============================================================================= C10

def check_C10(run):
    V, facts = [], {"nontrivial": [], "reach": {}}
    tasks = run.scn["tasks"]
    root = str(run.root)
    reach = facts["reach"]

    def bump(k, n=1):
        reach[k] = reach.get(k, 0) + n

    for i, st in run_steps(run):
        inv = st.inv
        if inv.killed or inv.deadlock is not None or st.after is None:
            continue
        if inv.internal is not None and not st.op.get("signal"):
            V.append(Violation("C10", "internal-error %s at %s" % (inv.internal[0], inv.internal[1]),
                               {"internal": list(inv.internal)}, i))
            continue
        tree = st.after["tree"]
        exits = {}
        for e in inv.trace:
            if e[0] == "exit":
                exits[e[1]] = (e[2], e[3])
        teed_err = b""
        out_bytes = inv.out
        pos = 0
        for sp in inv.spawns:
            t = sp["task"]
            if t not in tasks or tasks[t]["kind"] != "exp":
                continue
            name = "%s#%d" % (t, sp["execno"])
            how = exits.get(name)
            bg_here = any(e[0] == "bgspawn" and e[1] == name + "~bg" for e in inv.trace)
            if how is not None and how[0] == "sigterm" and st.op.get("signal") and not bg_here \
                    and sp["io"]["out"] in ("pipe", "file"):
                # the run was interrupted and the task terminated: its logs hold what it had written by then
                full_out, full_err = I.expected_streams(st.op, t, sp["execno"], with_bg=False)
                n_out = sum(e[3] for e in inv.trace if e[0] == "cwrote" and e[1] == name and e[2] == "out")
                n_err = sum(e[3] for e in inv.trace if e[0] == "cwrote" and e[1] == name and e[2] == "err")
                rel = os.path.relpath(sp["env"]["COND_OUT"], os.path.join(root, "cond-out"))
                mode = "teed" if sp["io"]["out"] == "pipe" else "logged"
                for fname, data in (("stdout.log", full_out[:n_out]), ("stderr.log", full_err[:n_err])):
                    got = tree.get(rel + "/" + fname)
                    if got is None:
                        if data:
                            V.append(Violation("C10", "log-file-missing-after-interrupt (%s)" % mode, {"task": t, "file": fname}, i))
                    elif got[0] != "f" or got[1] != I.sha(data):
                        V.append(Violation("C10", "log-file-of-interrupted-task-lacks-bytes-it-wrote (%s)" % mode,
                                           {"task": t, "file": fname, "size": got[2] if got[0] == "f" else None,
                                            "written": len(data)}, i))
                bump("interrupted_execution_logs_compared")
                facts["nontrivial"].append("interrupted-" + mode)
                continue
            if how is None or how[0] not in ("exit", "sig"):
                continue
            exp_out, exp_err = I.expected_streams(st.op, t, sp["execno"], with_bg=bg_here)
            rel = os.path.relpath(sp["env"]["COND_OUT"], os.path.join(root, "cond-out"))
            mode = "teed" if sp["io"]["out"] == "pipe" else ("logged" if sp["io"]["out"] == "file" else sp["io"]["out"])
            # the mode the property demands comes from the model, not from what the code chose: a task runs in
            # a parallel slot exactly when it is parallelizable and JOBS > 1 (C04); everything else is
            # "sequential mode" and must be forwarded (seeded change C10g-2: record type chosen from the
            # parallelizable flag alone, so a parallelizable experiment under --jobs 1 was only logged)
            jobs_m = M.jobs_of(st.op.get("flags", {}), run.scn.get("knobs", {}))
            par_m = bool(tasks[t].get("par")) and tasks[t]["kind"] in ("exp", "cmd")
            if isinstance(jobs_m, int) and jobs_m >= 1:
                want = "logged" if (par_m and jobs_m > 1) else "teed"
                if want == "teed" and mode == "logged":   # (forwarding a slot task as well is not forbidden)
                    V.append(Violation("C10", "sequential-task-not-forwarded",
                                       {"task": t, "jobs": jobs_m, "parallelizable": par_m, "stdout_is": sp["io"]["out"]}, i))
                elif want == "teed" and par_m:
                    bump("parallelizable_task_without_slot_forwarded")
            for fname, data in (("stdout.log", exp_out), ("stderr.log", exp_err)):
                got = tree.get(rel + "/" + fname)
                if got is None:
                    V.append(Violation("C10", "log-file-missing (%s)" % mode, {"task": t, "file": fname}, i))
                elif got[0] != "f" or got[1] != I.sha(data):
                    what = "log-file-truncated" if got[0] == "f" and got[2] < len(data) else "log-file-differs"
                    V.append(Violation("C10", "%s (%s)" % (what, mode),
                                       {"task": t, "file": fname, "size": got[2] if got[0] == "f" else None,
                                        "expected_size": len(data)}, i))
            interrupted = bool(st.op.get("signal")) and any(e[0] == "sigsent" for e in inv.trace)
            if interrupted:
                # the command was aborted: forwarding and the argument records of an execution whose
                # completion had not been processed yet are not owed; its log files (above) are
                facts["nontrivial"].append("interrupted-finished-" + mode)
                continue
            if mode == "teed":
                teed_err += exp_err
                # forwarded to Conductor's own stdout between the task's status lines
                marker = ("Running %s... " % t).encode()
                j = out_bytes.find(marker, pos)
                if j < 0:
                    V.append(Violation("C10", "running-line-not-found-in-own-stdout", {"task": t}, i))
                else:
                    eol = out_bytes.find(b"\n", j)
                    nxt = out_bytes.find(b"\x1b[", eol)
                    window = out_bytes[eol + 1: nxt if nxt >= 0 else len(out_bytes)]
                    if window != exp_out:
                        what = "forwarded-stdout-incomplete" if exp_out.startswith(window) else "forwarded-stdout-differs"
                        V.append(Violation("C10", what, {"task": t, "got_len": len(window), "expected_len": len(exp_out)}, i))
                    pos = eol
                bump("teed_execution")
            else:
                bump("logged_execution")
            if len(exp_out) > 65536 or len(exp_err) > 65536:
                bump("stream_larger_than_pipe_buffer")
            if sp["task"] in tasks and st.op["scripts"].get(t) and \
                    I.script_of(st.op, t, sp["execno"]).get("instant_exit"):
                bump("exit_before_drain")
            # argument records (written for successful executions)
            if how == ("exit", 0):
                d = tasks[t]
                for fname, val in (("args.json", d.get("args") or None), ("options.json", d.get("options") or None)):
                    got = tree.get(rel + "/" + fname)
                    if val is None:
                        if got is not None:
                            V.append(Violation("C10", "record-file-present-although-empty", {"task": t, "file": fname}, i))
                        continue
                    if got is None:
                        V.append(Violation("C10", "record-file-missing", {"task": t, "file": fname}, i))
                        continue
                    try:
                        dec = json.loads(got[3])
                    except Exception as ex:  # noqa
                        V.append(Violation("C10", "record-file-does-not-decode", {"task": t, "file": fname, "error": str(ex)[:80]}, i))
                        continue
                    if dec != val or not I._same_types(dec, val):
                        V.append(Violation("C10", "record-file-decodes-to-other-values",
                                           {"task": t, "file": fname, "got": dec, "expected": val}, i))
            facts["nontrivial"].append("%s-o%d-e%d" % (mode, min(len(exp_out), 9) if len(exp_out) < 9 else len(exp_out) // 4096 + 9,
                                                      min(len(exp_err), 9) if len(exp_err) < 9 else len(exp_err) // 4096 + 9))
        if teed_err:
            if not inv.err.startswith(teed_err):
                # find what is missing
                V.append(Violation("C10", "forwarded-stderr-differs", {"got_len": len(inv.err), "expected_prefix_len": len(teed_err)}, i))
    return V, facts


CHECKS["C10"] = check_C10


# ============================================================================= C11

def archive_selection(tasks, rows, target, latest):
    """the versions `cond archive [T] [--latest]` must put into the archive (from the documentation)"""
    if target is None:
        sel = list(rows)
    else:
        clo = M.closure(tasks, target)
        exps = {t for t in clo if tasks[t]["kind"] == "exp"}
        sel = [r for r in rows if r[0] in exps]
    if latest:
        best = {}
        for r in sel:
            if r[0] not in best or r[1] > best[r[0]][1]:
                best[r[0]] = r
        sel = list(best.values())
    return sorted(map(tuple, sel))


def check_C11(run):
    V, facts = [], {"nontrivial": [], "reach": {}}
    tasks = run.scn["tasks"]
    reach = facts["reach"]
    archives = {}
    last_archive = None
    for i, st in enumerate(run.steps):
        inv = st.inv
        if st.op["op"] == "foreign" and st.foreign and isinstance(st.foreign["rows"], list):
            archives[st.op["out"]] = {"sel": sorted(map(tuple, st.foreign["rows"])), "tree": st.foreign["tree"],
                                      "step": i, "mode": "other-checkout"}
            continue
        if inv is None or st.before is None or st.after is None or inv.killed:
            continue
        k = st.op["op"]
        rows_b = st.before["rows"] if isinstance(st.before["rows"], list) else []
        rows_a = st.after["rows"] if isinstance(st.after["rows"], list) else []
        if k == "archive":
            ids = [r[1] for r in rows_b]
            if len(ids) != len(set(ids)):
                reach["two_tasks_share_a_version_id"] = reach.get("two_tasks_share_a_version_id", 0) + 1
            if "version_index_archive.sqlite" in st.before["tree"]:
                reach["stale_temporary_archive_index_present"] = reach.get("stale_temporary_archive_index_present", 0) + 1
            target = st.op.get("target")
            latest = bool(st.op.get("flags", {}).get("latest"))
            sel = archive_selection(tasks, rows_b, target, latest)
            name = st.op.get("out") or "@default"
            # archiving never changes the source project
            if sorted(map(tuple, rows_a)) != sorted(map(tuple, rows_b)):
                V.append(Violation("C11", "archive-changed-recorded-versions", {}, i))
            for r in rows_b:
                rel = M.out_dir_rel(r[0], r[1])
                if I.subtree(st.before["tree"], rel) != I.subtree(st.after["tree"], rel):
                    V.append(Violation("C11", "archive-changed-an-output-directory", {"dir": rel}, i))
            if inv.internal is not None:
                V.append(Violation("C11", "archive-internal-error %s at %s" % (inv.internal[0], inv.internal[1]),
                                   {"internal": list(inv.internal)[:3], "target": target}, i))
                continue
            if not sel:
                if inv.code == 0:
                    V.append(Violation("C11", "archive-succeeded-with-nothing-to-archive", {"target": target}, i))
                reach["archive_nothing_to_archive"] = reach.get("archive_nothing_to_archive", 0) + 1
                continue
            if inv.code != 0:
                V.append(Violation("C11", "archive-failed-although-versions-exist",
                                   {"target": target, "latest": latest, "err": inv.err.decode("utf-8", "replace")[-300:]}, i))
                continue
            archives[name] = {"sel": sel, "tree": st.before["tree"], "step": i,
                              "mode": "%s%s" % ("task" if target else "all", "-latest" if latest else "")}
            facts["nontrivial"].append("archive-%s-%d" % (archives[name]["mode"], min(len(sel), 5)))
        elif k == "restore":
            name = st.op["archive"]
            a = archives.get(name)
            if a is None or st.op.get("corrupt"):
                continue
            sel = a["sel"]
            # tar member list / index inside the archive
            if st.archive_info is not None and sorted(map(tuple, st.archive_info)) != sel:
                V.append(Violation("C11", "archive-holds-other-versions-than-selected (%s)" % a["mode"],
                                   {"in_archive": st.archive_info[:6], "expected": sel[:6]}, i))
                continue
            bset = {tuple(r) for r in rows_b}
            if {(r[0], r[1]) for r in rows_b} & {(r[0], r[1]) for r in sel}:
                continue  # the project does not lack those versions: C12's business
            if any(M.out_dir_rel(r[0], r[1]) in st.before["tree"] for r in sel):
                # an unrecorded left-over directory is in the way: refusing is C12's business; a restore that
                # reports success still has to hand back exactly the archived trees, not a mixture
                reach["leftover_directory_in_the_way"] = reach.get("leftover_directory_in_the_way", 0) + 1
                if inv.code != 0:
                    continue
            if inv.code != 0:
                V.append(Violation("C11", "restore-failed-into-project-that-lacks-the-versions",
                                   {"err": inv.err.decode("utf-8", "replace")[-400:],
                                    "internal": list(inv.internal)[:3] if inv.internal else None}, i))
                continue
            gained = sorted({tuple(r) for r in rows_a} - bset)
            if gained != sel:
                V.append(Violation("C11", "restored-versions-differ-from-selected (%s)" % a["mode"],
                                   {"gained": gained[:6], "expected": sel[:6]}, i))
            for r in sel:
                rel = M.out_dir_rel(r[0], r[1])
                want = I.subtree(a["tree"], rel)
                got = I.subtree(st.after["tree"], rel)
                if got != want:
                    diff = sorted(set(want.items()) ^ set(got.items()), key=str)[:4]
                    kinds = {x[1][0] for x in diff}
                    what = "restored-tree-differs"
                    if any(v[0] == "l" for v in want.values()) and "l" in kinds:
                        what = "restored-tree-differs-symbolic-link-not-preserved"
                    V.append(Violation("C11", what, {"dir": rel, "diff": diff}, i))
            facts["nontrivial"].append("restore-%s-%d" % (a["mode"], min(len(sel), 5)))
            reach["roundtrip_checked"] = reach.get("roundtrip_checked", 0) + 1
    return V, facts


CHECKS["C11"] = check_C11


# ============================================================================= C13

RE_EXP_DIR = re.compile(r"^([a-zA-Z0-9_-]+)\.task\.([1-9][0-9]*)$")
RE_TASK_DIR = re.compile(r"^[a-zA-Z0-9_-]+\.task(\.[1-9][0-9]*)?$")


def expected_gc_deletions(tree, rows):
    """directories named <name>.task.<ts> reachable from cond-out without passing through a task output
    directory, whose (identifier from the relative path, ts) is not a recorded version"""
    recorded = {(r[0], r[1]) for r in rows}
    out = set()
    for p, v in tree.items():
        if v != ("d",):
            continue
        parts = p.split("/")
        m = RE_EXP_DIR.match(parts[-1])
        if not m:
            continue
        if any(RE_TASK_DIR.match(c) for c in parts[:-1]):
            continue
        ident = "//%s:%s" % ("/".join(parts[:-1]), m.group(1))
        if (ident, int(m.group(2))) not in recorded:
            out.add(p)
    return out


def check_C13(run):
    V, facts = [], {"nontrivial": [], "reach": {}}
    reach = facts["reach"]
    for i, st in enumerate(run.steps):
        inv = st.inv
        if inv is None or st.op["op"] != "gc" or st.before is None or st.after is None or inv.killed:
            continue
        rows = st.before["rows"] if isinstance(st.before["rows"], list) else []
        if isinstance(st.before["rows"], str):
            continue
        tb, ta = st.before["tree"], st.after["tree"]
        flags = st.op.get("flags", {})
        expect = expected_gc_deletions(tb, rows)
        cwd_abs = os.path.normpath(os.path.join(str(run.root), st.op.get("cwd", "")))
        co = os.path.join(str(run.root), "cond-out")
        if inv.internal is not None:
            V.append(Violation("C13", "gc-internal-error %s at %s" % (inv.internal[0], inv.internal[1]),
                               {"internal": list(inv.internal)[:3]}, i))
        elif inv.code != 0:
            V.append(Violation("C13", "gc-failed", {"err": inv.err.decode("utf-8", "replace")[-300:]}, i))
        if isinstance(st.after["rows"], list) and sorted(map(tuple, st.after["rows"])) != sorted(map(tuple, rows)):
            # gc removes directories that have no recorded version; the set of recorded versions is not its to
            # change (a version that loses its record is an unrecorded directory for the next gc)
            V.append(Violation("C13", "gc-changed-the-recorded-versions",
                               {"lost": [list(r) for r in rows if tuple(r) not in set(map(tuple, st.after["rows"]))][:4],
                                "dry_run": bool(flags.get("dry"))}, i))
        if st.before.get("relocated") != st.after.get("relocated"):
            V.append(Violation("C13", "gc-modified-data-outside-cond-out (relocated outputs behind a symbolic link)",
                               {"links": sorted(st.before.get("relocated", {}))[:4]}, i))
        gone_all = {p for p in tb if p not in ta}
        gone_top = {p for p in gone_all if not any(p.startswith(q + "/") for q in gone_all)}
        changed = {p for p in ta if p in tb and ta[p] != tb[p]} | {p for p in ta if p not in tb}
        changed = {p for p in changed if not p.startswith("version_index.sqlite")}   # created by any command
        if st.before.get("outside") != st.after.get("outside"):
            lost = sorted(set(st.before.get("outside", {})) - set(st.after.get("outside", {})))
            V.append(Violation("C13", "gc-deleted-something-outside-cond-out", {"lost": lost[:5]}, i))
        if changed:
            V.append(Violation("C13", "gc-modified-entries", {"changed": sorted(changed)[:5]}, i))
        text = strip(inv.out.decode("utf-8", "replace"))
        listed = set()
        for line in text.splitlines():
            for pre in ("Would delete ", "Deleting "):
                if line.startswith(pre):
                    ab = os.path.normpath(os.path.join(cwd_abs, line[len(pre):]))
                    listed.add(os.path.relpath(ab, co))
        if flags.get("dry"):
            if gone_all:
                V.append(Violation("C13", "dry-run-deleted-something", {"gone": sorted(gone_top)[:5]}, i))
            if inv.internal is None and listed != expect:
                V.append(Violation("C13", "dry-run-list-differs-from-what-gc-must-delete",
                                   {"listed_only": sorted(listed - expect)[:5], "missing": sorted(expect - listed)[:5]}, i))
        else:
            if inv.internal is None and gone_top != expect:
                extra, missing = sorted(gone_top - expect), sorted(expect - gone_top)
                if extra:
                    recorded = {M.out_dir_rel(r[0], r[1]) for r in rows}
                    what = "gc-deleted-a-recorded-version" if set(extra) & recorded else \
                        ("gc-deleted-something-nested-inside-a-task-output" if any(
                            any(RE_TASK_DIR.match(c) for c in p.split("/")[:-1]) for p in extra)
                         else "gc-deleted-something-that-is-not-an-unrecorded-experiment-output")
                    V.append(Violation("C13", what, {"extra": extra[:5]}, i))
                if missing:
                    V.append(Violation("C13", "gc-left-an-unrecorded-experiment-output", {"missing": missing[:5]}, i))
            if flags.get("verbose") and inv.internal is None and listed != expect:
                V.append(Violation("C13", "verbose-list-differs-from-deletions",
                                   {"listed_only": sorted(listed - expect)[:5], "missing": sorted(expect - listed)[:5]}, i))
        facts["nontrivial"].append("gc-%s-e%d-r%d" % ("dry" if flags.get("dry") else "real", min(len(expect), 5), min(len(rows), 4)))
        if expect:
            reach["gc_with_something_to_delete"] = reach.get("gc_with_something_to_delete", 0) + 1
        nested = [p for p, v in tb.items() if v == ("d",) and RE_EXP_DIR.match(p.split("/")[-1])
                  and any(RE_TASK_DIR.match(c) for c in p.split("/")[:-1])]
        if nested:
            reach["lookalike_nested_in_task_output"] = reach.get("lookalike_nested_in_task_output", 0) + 1
        if any(p.startswith(".archive-tmp") for p in tb):
            reach["staging_leftovers_present"] = reach.get("staging_leftovers_present", 0) + 1
        if "outside" in st.before:
            reach["symlink_to_outside_present"] = reach.get("symlink_to_outside_present", 0) + 1
    return V, facts


CHECKS["C13"] = check_C13


# ============================================================================= C18

def check_C18(run):
    V, facts = [], {"nontrivial": [], "reach": {}}
    tasks = run.scn["tasks"]
    root = str(run.root)
    reach = facts["reach"]
    co = os.path.join(root, "cond-out")
    for i, st in run_steps(run):
        inv = st.inv
        if inv.killed or inv.deadlock is not None or st.after is None or st.before is None:
            continue
        o = RunObs(run.scn, st)
        started = {t for ti, k, t, x in o.events if k == "start"}
        own_dir = {}
        for sp in inv.spawns:
            if sp["task"] in tasks and sp["env"].get("COND_OUT"):
                own_dir.setdefault(sp["task"], sp["env"]["COND_OUT"])
        exit_ok = {t for ti, k, t, x in o.events if k == "exit" and x["status"] == 0}
        ta, tb = st.after["tree"], st.before["tree"]
        failed_printed = {t for ti, kind, t, _, _ in o.printed if kind == "failed"}
        # a combine task that this run needed (it is never a cached result itself) and that was not executed
        # although the run succeeded: its entries are judged all the same - "re-running updates the entries"
        consider = set(started)
        if inv.code == 0 and inv.internal is None and not st.op.get("flags", {}).get("check"):
            try:
                needed_, _c, err_ = o.model_plan()
            except Exception:
                needed_, err_ = set(), True
            if not err_:
                for c in needed_:
                    if c in tasks and tasks[c]["kind"] == "combine" and c not in started:
                        consider.add(c)
                        reach["needed_combine_not_executed"] = reach.get("needed_combine_not_executed", 0) + 1
        for c in sorted(consider):
            if c not in tasks or tasks[c]["kind"] != "combine":
                continue
            c_rel = M.out_dir_rel(c)
            conflict = None
            expected = {}
            for d in tasks[c]["deps"]:
                kd = tasks[d]["kind"]
                if kd == "group":
                    continue
                if kd in ("cmd", "combine"):
                    ddir = os.path.join(co, M.out_dir_rel(d))
                else:
                    if d in own_dir:
                        ddir = own_dir[d]
                    else:
                        sel = M.select_version(d, o.rows_before, o.git)
                        ddir = os.path.join(co, M.out_dir_rel(d, sel[1])) if sel else None
                if ddir is None:
                    continue
                drel = os.path.relpath(ddir, co)
                nonempty = ta.get(drel) == ("d",) and any(k.startswith(drel + "/") for k in ta)
                if drel in st.after.get("relocated", {}):
                    # the dependency's directory was moved elsewhere by hand, a link took its place
                    nonempty = bool(st.after["relocated"][drel])
                if not nonempty:
                    continue
                name = split_tid(d)[1]
                entry = c_rel + "/" + name
                expected[entry] = (d, ddir)
                pre = tb.get(entry)
                if pre is None:
                    # (the combine directory may live behind a symbolic link: look there)
                    reloc_b = st.before.get("relocated", {})
                    bh = next((r_ for r_ in reloc_b if entry.startswith(r_ + "/")), None)
                    if bh is not None:
                        pre = reloc_b[bh].get(entry[len(bh) + 1:])
                if pre is not None and pre[0] != "l" and conflict is None:
                    conflict = (entry, d)
            if conflict is not None:
                reach["combine_conflict"] = reach.get("combine_conflict", 0) + 1
                entry, d = conflict
                if I.subtree(ta, entry) != I.subtree(tb, entry):
                    V.append(Violation("C18", "entry-that-is-not-a-conductor-link-was-overwritten", {"entry": entry}, i))
                if inv.code == 0 or c not in failed_printed:
                    V.append(Violation("C18", "conflicting-entry-not-reported-as-error",
                                       {"entry": entry, "code": inv.code, "failed": sorted(failed_printed)}, i))
                facts["nontrivial"].append("conflict")
                continue
            if c in failed_printed or inv.internal is not None:
                V.append(Violation("C18", "combine-failed-without-conflict",
                                   {"task": c, "internal": list(inv.internal)[:3] if inv.internal else None,
                                    "err": inv.err.decode("utf-8", "replace")[-300:]}, i))
                continue
            reloc_a = st.after.get("relocated", {})
            for entry, (d, ddir) in sorted(expected.items()):
                got = ta.get(entry)
                behind = next((r_ for r_ in reloc_a if entry.startswith(r_ + "/")), None)
                if got is None and behind is not None:
                    # the combine directory lives behind a symbolic link (moved to another volume by hand): the entry
                    # is judged physically - it must be a link that leads somewhere
                    got2 = reloc_a[behind].get(entry[len(behind) + 1:])
                    if got2 is None:
                        V.append(Violation("C18", "combine-entry-missing", {"entry": entry, "dep": d, "behind_link": behind}, i))
                    elif got2[0] != "l":
                        V.append(Violation("C18", "combine-entry-is-not-a-link", {"entry": entry, "dep": d}, i))
                    elif entry in st.after.get("dangling", []):
                        V.append(Violation("C18", "combine-entry-dangles (combine directory behind a symbolic link)",
                                           {"entry": entry, "dep": d, "target": got2[1]}, i))
                    reach["combine_directory_behind_symlink"] = reach.get("combine_directory_behind_symlink", 0) + 1
                    continue
                if got is None:
                    V.append(Violation("C18", "combine-entry-missing", {"entry": entry, "dep": d}, i))
                elif got[0] != "l":
                    V.append(Violation("C18", "combine-entry-is-not-a-link", {"entry": entry, "dep": d}, i))
                else:
                    resolved = os.path.normpath(os.path.join(co, os.path.dirname(entry), got[1]))
                    if resolved != os.path.normpath(ddir):
                        what = "combine-entry-points-to-another-version" if tasks[d]["kind"] == "exp" and \
                            resolved.startswith(os.path.join(co, M.out_dir_rel(d)) + ".") else "combine-entry-points-elsewhere"
                        V.append(Violation("C18", what, {"entry": entry, "dep": d, "got": resolved, "expected": ddir}, i))
                    elif tb.get(entry) is not None and tb.get(entry) != got:
                        reach["entry_updated_to_new_version"] = reach.get("entry_updated_to_new_version", 0) + 1
            kinds = "".join(sorted({tasks[d]["kind"][0] for d in tasks[c]["deps"]}))
            facts["nontrivial"].append("combine-%s-%d" % (kinds, len(expected)))
    return V, facts


CHECKS["C18"] = check_C18


# ============================================================================= C17

PATH_PREFIXES = ("Would delete ", "Deleting ", "✨ Done! Archive saved as ")


def normalize_output(text, cwd_abs, work):
    out = []
    for line in strip(text).splitlines():
        for pre in PATH_PREFIXES:
            if line.startswith(pre):
                ab = os.path.normpath(os.path.join(cwd_abs, line[len(pre):]))
                line = pre + ab
                break
        out.append(line.replace(work, "$W"))
    return out


def check_C17(run):
    V, facts = [], {"nontrivial": [], "reach": {}}
    ref = getattr(run, "ref", None)
    if ref is None:
        return V, facts
    reach = facts["reach"]
    for i, (sa, sb) in enumerate(zip(ref.steps, run.steps)):
        if sa.inv is None or sb.inv is None:
            continue
        a, b = sa.inv, sb.inv
        kind = sb.op["op"]
        cwd = getattr(sb, "cwd_used", "")
        if not cwd:
            continue
        where = "cond-out" if cwd.startswith("cond-out") else ("package" if cwd in run.scn.get("pkgs", []) and not cwd.startswith("nocond") else "other")
        tag = "%s from %s" % (kind, where)
        # the project root is the NEAREST ancestor with a cond_config.toml: a run that started tasks keeps its
        # index in this project's cond-out (not in an enclosing project's)
        for who, stp in (("root", sa), ("sub", sb)):
            iv = stp.inv
            if kind == "run" and iv.code == 0 and iv.spawns and stp.after is not None and stp.after["rows"] is None:
                V.append(Violation("C17", "command-did-not-use-the-nearest-project-root (run from %s)" % who,
                                   {"cwd": cwd if who == "sub" else ""}, i))
            rt = str(ref.root if who == "root" else run.root)
            if kind == "where" and iv.code == 0 and not stp.op.get("flags", {}).get("project"):
                loc = iv.out.decode("utf-8", "replace").strip()
                lk = os.path.join(os.path.dirname(rt), "plink")
                if stp.op.get("via_symlink") and (loc + "/").startswith(lk + "/"):
                    loc = rt + loc[len(lk):]      # the logical path through the link names the same directory
                if loc and not (loc + "/").startswith(rt + "/"):
                    V.append(Violation("C17", "command-did-not-use-the-nearest-project-root (where from %s)" % who,
                                       {"cwd": cwd if who == "sub" else "", "printed": loc.replace(str(run.work), "$W")}, i))
            orl = getattr(stp, "out_rel", None)
            if kind == "archive" and orl and iv.code == 0 and not orl["exists"]:
                V.append(Violation("C17", "relative-archive-path-not-resolved-against-the-working-directory (from %s)" % who,
                                   {"cwd": cwd if who == "sub" else "", "found_instead": orl["strays"]}, i))
        if b.internal is not None and a.internal is None:
            V.append(Violation("C17", "internal-error-only-from-subdirectory %s at %s (%s)" % (b.internal[0], b.internal[1], tag),
                               {"cwd": cwd, "internal": list(b.internal)[:3]}, i))
            continue
        if a.code != b.code:
            V.append(Violation("C17", "exit-status-depends-on-working-directory (%s)" % tag,
                               {"cwd": cwd, "root": a.code, "sub": b.code,
                                "err": b.err.decode("utf-8", "replace")[-300:]}, i))
            continue
        if sa.after is not None and sb.after is not None:
            if sa.after["rows"] != sb.after["rows"]:
                V.append(Violation("C17", "recorded-versions-depend-on-working-directory (%s)" % tag, {"cwd": cwd}, i))
            elif sa.after["tree"] != sb.after["tree"]:
                diff = sorted(set(map(str, sa.after["tree"].items())) ^ set(map(str, sb.after["tree"].items())))[:4]
                V.append(Violation("C17", "cond-out-contents-depend-on-working-directory (%s)" % tag,
                                   {"cwd": cwd, "diff": diff}, i))
        oa = normalize_output(a.out.decode("utf-8", "replace"), str(ref.root), str(ref.work))
        ob = normalize_output(b.out.decode("utf-8", "replace"), os.path.join(str(run.root), cwd), str(run.work))
        if sb.op.get("via_symlink"):
            ob = [ln.replace("$W/plink", "$W/proj") for ln in ob]
        if kind == "archive" and sb.op.get("out_rel"):
            # a relative -o is resolved against the working directory: the two locations differ by design, each
            # must be the file in its own starting directory
            pre = "\u2728 Done! Archive saved as "
            for who, lines, stp in (("root", oa, sa), ("sub", ob, sb)):
                orl = getattr(stp, "out_rel", None)
                for ln in lines:
                    if ln.startswith(pre) and orl and ln[len(pre):].replace("$W", str(ref.work if who == "root" else run.work)) != orl["expected"]:
                        V.append(Violation("C17", "reported-archive-location-is-not-the-relative-path-in-the-working-directory (from %s)" % who,
                                           {"printed": ln[len(pre):], "cwd": cwd if who == "sub" else ""}, i))
            oa = [ln for ln in oa if not ln.startswith(pre)]
            ob = [ln for ln in ob if not ln.startswith(pre)]
        if kind != "run" and sorted(oa) != sorted(ob):
            V.append(Violation("C17", "reported-locations-depend-on-working-directory (%s)" % tag,
                               {"cwd": cwd, "root": oa[-4:], "sub": ob[-4:]}, i))
        facts["nontrivial"].append(tag)
        reach["compared_" + kind] = reach.get("compared_" + kind, 0) + 1
    return V, facts


CHECKS["C17"] = check_C17
