"""Reference model, written from website/docs and the property statements.  Shares no code with
Conductor.  Everything is a pure function of the scenario and of observed durable state."""
from . import sim
from .scenario import split_tid


# ---------------------------------------------------------------------------- graph

def deps_of(tasks, t):
    return list(tasks[t]["deps"])


def closure(tasks, t):
    """t and everything it transitively depends on"""
    seen = set()
    stack = [t]
    while stack:
        x = stack.pop()
        if x in seen:
            continue
        seen.add(x)
        stack.extend(tasks[x]["deps"])
    return seen


def trans_deps(tasks, t):
    return closure(tasks, t) - {t}


def dependents_closure(tasks, within, srcs):
    """tasks in `within` that transitively depend on a member of srcs (srcs excluded)"""
    out = set()
    for t in within:
        if t in srcs:
            continue
        if trans_deps(tasks, t) & srcs:
            out.add(t)
    return out


# ---------------------------------------------------------------------------- git

class GitView:
    """the commit DAG as the documentation talks about it"""

    def __init__(self, state, disabled):
        self.state = state or {"mode": "none"}
        self.disabled = disabled
        self._anc = {}

    @property
    def uses_git(self):
        return (not self.disabled) and self.state.get("mode") == "repo"

    @property
    def head(self):
        if not self.uses_git:
            return None
        return self.state.get("head")

    @property
    def head_hash(self):
        h = self.head
        return sim.commit_hash(h) if h else None

    @property
    def dirty(self):
        return bool(self.state.get("dirty")) if self.head else False

    def name_of(self, h):
        for n in self.state.get("commits", {}):
            if sim.commit_hash(n) == h:
                return n
        return None

    def ancestors(self, name):
        if name not in self._anc:
            seen = set()
            stack = [name]
            while stack:
                c = stack.pop()
                if c in seen:
                    continue
                seen.add(c)
                stack.extend(self.state["commits"][c])
            self._anc[name] = seen
        return self._anc[name]

    def is_ancestor(self, anc_hash, desc_hash):
        a, d = self.name_of(anc_hash), self.name_of(desc_hash)
        if a is None or d is None:
            return False
        return a in self.ancestors(d)

    def distance(self, from_hash, anc_hash):
        """number of commits reachable from `from` and not from `anc` (git rev-list --count)"""
        f, a = self.name_of(from_hash), self.name_of(anc_hash)
        return len(self.ancestors(f) - self.ancestors(a))

    def resolve(self, sym):
        st = self.state
        if sym == "HEAD":
            return self.head_hash
        if sym in st.get("branches", {}):
            return sim.commit_hash(st["branches"][sym])
        if sym in st.get("tags", {}):
            # a tag names a commit - whether it is a lightweight or an annotated one
            return sim.commit_hash(st["tags"][sym]["commit"])
        cands = [n for n in st.get("commits", {}) if sim.commit_hash(n).startswith(sym)]
        if len(sym) >= 4 and len(cands) == 1:
            return sim.commit_hash(cands[0])
        return None


# ---------------------------------------------------------------------------- version selection

def select_version(task, rows, git):
    """The documented rule (C05).  rows: iterable of (task, ts, commit, dirty).  Returns a row or None."""
    mine = [r for r in rows if r[0] == task]
    if not mine:
        return None
    if not git.uses_git or git.head is None:
        return max(mine, key=lambda r: r[1])
    head = git.head_hash
    anc = [r for r in mine if r[2] is not None and git.is_ancestor(r[2], head)]
    if anc:
        best = min(anc, key=lambda r: (git.distance(head, r[2]), -r[1]))
        return best
    if all(r[2] is None for r in mine):
        return max(mine, key=lambda r: r[1])
    return None


def should_run_exp(task, rows, git, at_least_hash):
    sel = select_version(task, rows, git)
    if sel is None:
        return True
    if at_least_hash is None:
        return False
    if sel[2] is None:
        return True
    if sel[2] == at_least_hash:
        return False
    # strict ancestor of C -> older -> must re-run
    return git.is_ancestor(sel[2], at_least_hash)


def plan(tasks, target, rows, git, again=False, at_least_hash=None):
    """needed = tasks reachable from target along paths on which no task (the target included) is a
    reusable cached experiment; cached = the reusable experiments met on the way."""
    needed, cached = [], []
    seen = set()
    stack = [target]
    while stack:
        t = stack.pop()
        if t in seen:
            continue
        seen.add(t)
        d = tasks[t]
        if d["kind"] == "exp" and not again and not should_run_exp(t, rows, git, at_least_hash):
            cached.append(t)
            continue
        needed.append(t)
        stack.extend(d["deps"])
    return set(needed), set(cached)


def flag_error(flags, git):
    """validation of the commit flags (C05): returns a reason if `cond run` must refuse"""
    for_commit = bool(flags.get("this_commit")) or flags.get("at_least") is not None
    if flags.get("this_commit") and flags.get("at_least") is not None:
        return "both-commit-flags"
    if flags.get("again") and for_commit:
        return "again-and-commit"
    if for_commit and not git.uses_git:
        return "commit-flag-without-git"
    if for_commit and git.head is None:
        return "commit-flag-without-commits"
    if for_commit:
        sym = flags.get("at_least") if flags.get("at_least") is not None else "HEAD"
        h = git.resolve(sym)
        if h is None:
            return "unknown-symbol"
        if not git.is_ancestor(h, git.head_hash):
            return "not-ancestor"
    return None


def at_least_hash(flags, git):
    if flags.get("this_commit"):
        return git.head_hash
    if flags.get("at_least") is not None:
        return git.resolve(flags["at_least"])
    return None


def jobs_of(flags, knobs):
    j = flags.get("jobs")
    if j is None:
        return 1
    if j == "auto":
        return knobs.get("cpu_count", 4)
    return j


# ---------------------------------------------------------------------------- paths

def out_dir_rel(task, ts=None):
    """output directory of a task relative to cond-out"""
    path, name = split_tid(task)
    base = name + ".task" + ("" if ts is None else ".%d" % ts)
    return (path + "/" if path else "") + base
