"""One oracle per claimed property.  Each takes a Run (runner.execute) and returns
(violations, facts) where facts feed the evidence (non-triviality keys, reach probes)."""
import json
import os
import re
import shlex

from . import model as M
from . import sim
from .obs import RunObs, Violation, fail_skip_sets, strip, exec_path_exists, hidden_skips

HID = " [only-through-cached-experiment]"
from .scenario import split_tid


def run_steps(run):
    for i, st in enumerate(run.steps):
        if st.op["op"] == "run" and st.inv is not None:
            yield i, st


def _status_ok(status):
    return status == 0


# ============================================================================= C09

def check_C09(run):
    V, facts = [], {"nontrivial": []}
    for i, st in run_steps(run):
        inv = st.inv
        if inv.killed or st.op.get("signal"):
            continue
        o = RunObs(run.scn, st)
        reaps_direct = sorted({x["via"].split(":", 1)[1] for ti, k, t, x in o.events
                               if k == "reap" and x["via"].startswith("pid:")})
        if inv.deadlock is not None:
            stolen = [x for ti, k, t, x in o.events if k == "reap" and x["via"].startswith("pid:")
                      and x["via"].split(":")[1] in ("_internal_poll", "_try_wait", "poll", "wait", "_wait")]
            if stolen:
                sig = "hang exit-status-stolen via=%s" % ",".join(sorted({x["via"].split(":")[1] for x in stolen}))
            else:
                sig = "hang blocked=%s" % inv.deadlock
            V.append(Violation("C09", sig, {"trace_tail": [list(e) for e in inv.trace[-25:]]}, i))
            continue
        if inv.internal is not None:
            V.append(Violation("C09", "internal-error %s at %s" % (inv.internal[0], inv.internal[1]),
                               {"internal": list(inv.internal)}, i))
            continue
        needed, cached, err = o.model_plan()
        if err or st.op.get("flags", {}).get("check"):
            continue
        if inv.exit_hang:
            V.append(Violation("C09", "hang at-exit tee-threads-never-finish", {}, i))
        # exactly one outcome per needed task
        outcomes = {}
        for ti, kind, t, _, _ in o.printed:
            if kind in ("done", "failed", "skipping"):
                outcomes.setdefault(t, []).append(kind)
        stop_early = bool(st.op.get("flags", {}).get("stop_early"))
        F, S = fail_skip_sets(o, needed)
        for t in sorted(needed):
            got = outcomes.get(t, [])
            if len(got) > 1:
                V.append(Violation("C09", "task-reported-more-than-once", {"task": t, "got": got}, i))
            elif len(got) == 0 and not (stop_early and F):
                V.append(Violation("C09", "task-without-outcome", {"task": t}, i))
        for t, got in outcomes.items():
            if t not in needed:
                V.append(Violation("C09", "outcome-for-unneeded-task", {"task": t, "got": got}, i))
        # attribution: the reported outcome is the one the child really had
        exit_status = {}
        for ti, k, t, x in o.events:
            if k == "exit" and t in run.scn["tasks"]:
                exit_status.setdefault(t, []).append((x["how"], x["status"]))
        for t, got in outcomes.items():
            if t not in run.scn["tasks"] or run.scn["tasks"][t]["kind"] not in ("exp", "cmd"):
                continue
            sts = exit_status.get(t, [])
            if len(sts) != 1 or len(got) != 1:
                continue
            how, status = sts[0]
            if how in ("sigterm", "sigkill"):
                continue
            if status == 0 and got[0] == "failed":
                V.append(Violation("C09", "successful-task-reported-failed", {"task": t}, i))
            if status != 0 and got[0] == "done":
                V.append(Violation("C09", "failed-task-reported-successful", {"task": t, "status": status}, i))
        nproc = len(o.proc_starts())
        if nproc >= 1:
            facts["nontrivial"].append("n%d" % nproc)
        # reach probes
        for ti, k, t, x in o.events:
            if k == "reap" and x["via"].startswith("pid:"):
                facts.setdefault("reach", {}).setdefault("reap_direct:" + x["via"].split(":")[1], 0)
                facts["reach"]["reap_direct:" + x["via"].split(":")[1]] += 1
        _probe_coalesced(o, facts)
    return V, facts


def _probe_coalesced(o, facts):
    """≥2 zombies reaped by one handler run"""
    reach = facts.setdefault("reach", {})
    cnt = 0
    for e in o.inv.trace:
        if e[0] == "handler" and e[1] == "SIGCHLD":
            cnt = 0
        elif e[0] == "reap" and e[2].startswith("any:"):
            cnt += 1
            if cnt == 2:
                reach["coalesced_sigchld"] = reach.get("coalesced_sigchld", 0) + 1


# ============================================================================= C01

def check_C01(run):
    V, facts = [], {"nontrivial": []}
    tasks = run.scn["tasks"]
    for i, st in run_steps(run):
        inv = st.inv
        if inv.killed:
            continue
        o = RunObs(run.scn, st)
        running = {}   # exec name -> task
        exits = {}     # task -> list of statuses (in order)
        started = {}   # task -> list of start trace indices
        all_starts = [(ti, t) for ti, k, t, x in o.events if k == "start"]
        executed = {t2 for _, t2 in all_starts} | {t2 for _, kind, t2, _, _ in o.printed if kind == "running"}
        pairs = 0
        for ti, k, t, x in o.events:
            if k == "start":
                if t not in tasks:
                    continue
                td = M.trans_deps(tasks, t)
                for d in sorted(td):
                    d_runs_here = any(t2 == d for _, t2 in all_starts)
                    if not d_runs_here:
                        continue
                    pairs += 1
                    hid = "" if exec_path_exists(tasks, t, d, executed) else HID
                    # every execution of d must have exited 0 before now, none running
                    if any(task == d for task in running.values()):
                        V.append(Violation("C01", "dependent-started-while-dependency-running" + hid,
                                           {"task": t, "dep": d}, i))
                    d_starts = [s for s, t2 in all_starts if t2 == d]
                    if any(s > ti for s in d_starts):
                        V.append(Violation("C01", "dependency-started-after-dependent" + hid,
                                           {"task": t, "dep": d}, i))
                    elif tasks[d]["kind"] in ("exp", "cmd"):
                        sts = exits.get(d, [])
                        n_started_before = len([s for s in d_starts if s < ti])
                        if len(sts) < n_started_before and not any(task == d for task in running.values()):
                            V.append(Violation("C01", "dependent-started-before-dependency-exit" + hid,
                                               {"task": t, "dep": d}, i))
                        if any(s != 0 for s in sts):
                            V.append(Violation("C01", "dependent-started-after-dependency-failed" + hid,
                                               {"task": t, "dep": d, "statuses": sts}, i))
                if x["proc"]:
                    running[x["name"]] = t
                started.setdefault(t, []).append(ti)
            elif k == "exit":
                running.pop(x["name"], None)
                exits.setdefault(t, []).append(x["status"])
        if pairs:
            facts["nontrivial"].append("pairs%d" % min(pairs, 9))
    return V, facts


# ============================================================================= C02

def check_C02(run):
    V, facts = [], {"nontrivial": []}
    tasks = run.scn["tasks"]
    for i, st in run_steps(run):
        inv = st.inv
        if inv.killed or inv.deadlock is not None:
            continue
        o = RunObs(run.scn, st)
        needed, cached, err = o.model_plan()
        flags = st.op.get("flags", {})
        if flags.get("check"):
            if o.starts() or any(k == "launchfail" for _, k, _, _ in o.events):
                V.append(Violation("C02", "check-flag-executed-a-task", {}, i))
            continue
        started = o.started_tasks()
        if err:
            if started:
                V.append(Violation("C02", "task-started-despite-flag-error", {"err": err, "started": started}, i))
            continue
        if inv.internal is not None and not st.op.get("signal"):
            V.append(Violation("C02", "internal-error %s at %s" % (inv.internal[0], inv.internal[1]),
                               {"internal": list(inv.internal)}, i))
            continue
        counts = {}
        for t in started:
            counts[t] = counts.get(t, 0) + 1
        for t, c in sorted(counts.items()):
            if c > 1:
                V.append(Violation("C02", "task-executed-more-than-once", {"task": t, "count": c}, i))
        target = st.op["target"]
        clo = M.closure(tasks, target) if target in tasks else set()
        for t in sorted(set(started)):
            if t not in clo:
                V.append(Violation("C02", "task-outside-closure-executed", {"task": t}, i))
            elif t not in needed:
                V.append(Violation("C02", "cached-or-hidden-task-executed", {"task": t}, i))
        F, S = fail_skip_sets(o, needed)
        faulty = bool(F) or st.op.get("signal") or flags.get("stop_early") and F
        if not st.op.get("signal"):
            expect_started = needed - S
            if not (flags.get("stop_early") and F):
                missing = expect_started - set(started)
                for t in sorted(missing):
                    V.append(Violation("C02", "needed-task-not-executed", {"task": t}, i))
        # cached ∩ executed = ∅
        reported_cached = [t for ti, kind, t, _, _ in o.printed if kind == "cached"]
        for t in reported_cached:
            if t in counts:
                V.append(Violation("C02", "task-reported-cached-and-executed", {"task": t}, i))
            if t in tasks and t not in cached and t not in counts and not err:
                V.append(Violation("C02", "task-reported-cached-without-reusable-version", {"task": t}, i))
        # progress counter
        prog = [(k_, n_) for ti, kind, t, k_, n_ in o.printed if kind in ("running", "skipping")]
        if prog:
            totals = {n_ for _, n_ in prog}
            if totals != {len(needed)}:
                V.append(Violation("C02", "progress-total-differs-from-number-of-tasks-to-run",
                                   {"totals": sorted(totals), "needed": len(needed)}, i))
            ks = [k_ for k_, _ in prog]
            if ks != list(range(1, len(ks) + 1)):
                V.append(Violation("C02", "progress-counter-not-sequential", {"ks": ks}, i))
        # new rows = experiments that exited 0 (only when nothing interfered)
        if st.after and isinstance(st.after["rows"], list) and not st.op.get("signal"):
            before = set(map(tuple, o.rows_before))
            new = [r for r in st.after["rows"] if tuple(r) not in before]
            ok_exps = set()
            for ti, k, t, x in o.events:
                if k == "exit" and x["status"] == 0 and t in tasks and tasks[t]["kind"] == "exp":
                    ok_exps.add(t)
            new_tasks = [r[0] for r in new]
            for t in new_tasks:
                if new_tasks.count(t) > 1:
                    V.append(Violation("C02", "several-versions-recorded-in-one-invocation", {"task": t}, i))
                    break
            if not (flags.get("stop_early") and F):
                if set(new_tasks) != ok_exps:
                    V.append(Violation("C02", "recorded-versions-differ-from-successful-experiments",
                                       {"new": sorted(set(new_tasks)), "ok": sorted(ok_exps)}, i))
        if needed:
            facts["nontrivial"].append("n%d-c%d" % (len(needed), len(cached)))
        if cached:
            facts.setdefault("reach", {})["cached_pruned"] = facts.get("reach", {}).get("cached_pruned", 0) + 1
    return V, facts


# ============================================================================= C03

def check_C03(run):
    V, facts = [], {"nontrivial": []}
    tasks = run.scn["tasks"]
    for i, st in run_steps(run):
        inv = st.inv
        if inv.killed or inv.deadlock is not None or st.op.get("signal"):
            continue
        flags = st.op.get("flags", {})
        if flags.get("check"):
            continue
        o = RunObs(run.scn, st)
        needed, cached, err = o.model_plan()
        if err:
            if inv.code == 0:
                V.append(Violation("C03", "flag-error-exit-zero", {"err": err}, i))
            continue
        if inv.internal is not None:
            V.append(Violation("C03", "internal-error %s at %s" % (inv.internal[0], inv.internal[1]),
                               {"internal": list(inv.internal)}, i))
            continue
        extra = set(st.op.get("combine_conflict", []))
        F, S = fail_skip_sets(o, needed, extra_fail=extra & needed)
        started = set(o.started_tasks())
        stop_early = bool(flags.get("stop_early"))
        SH = hidden_skips(tasks, needed, F, S)
        if not stop_early:
            for t in sorted(S & started):
                V.append(Violation("C03", "dependent-of-failed-task-started" + (HID if t in SH else ""),
                                   {"task": t}, i))
            for t in sorted((needed - S) - started):
                V.append(Violation("C03", "independent-task-not-run-after-failure" if F else "needed-task-not-run",
                                   {"task": t}, i))
            if F:
                if inv.code == 0:
                    V.append(Violation("C03", "exit-zero-despite-failure", {"failed": sorted(F)}, i))
                rf = o.report_failed
                if rf is None or sorted(rf) != sorted(F):
                    hid = HID if rf is not None and set(F) <= set(rf) and set(rf) - set(F) <= SH else ""
                    V.append(Violation("C03", "failed-report-differs" + hid,
                                       {"reported": rf, "expected": sorted(F)}, i))
                rs = o.report_skipped or []
                if sorted(rs) != sorted(S):
                    # tasks behind a started hidden task follow that task's real outcome
                    SHX = SH | {t for t in S if M.trans_deps(tasks, t) & SH}
                    hid = HID if set(S) - SHX <= set(rs) and set(rs) <= set(S) else ""
                    V.append(Violation("C03", "skipped-report-differs" + hid,
                                       {"reported": rs, "expected": sorted(S)}, i))
            else:
                if inv.code != 0:
                    V.append(Violation("C03", "exit-nonzero-without-failure", {"code": inv.code,
                                                                               "err": inv.err.decode("utf-8", "replace")[-300:]}, i))
                if o.report_failed:
                    V.append(Violation("C03", "failure-reported-without-failure", {"reported": o.report_failed}, i))
            # nobody is signalled in default mode
            for ti, k, t, x in o.events:
                if k == "kill" and x["state"] == "running":
                    V.append(Violation("C03", "running-task-signalled-without-stop-early", {"task": t}, i))
                    break
        else:
            _check_stop_early(o, inv, i, needed, F, S, V)
        if F:
            facts["nontrivial"].append("F%d-S%d-%s" % (len(F), len(S), "se" if stop_early else "df"))
            kinds = sorted({o.script_outcome(t)[1].split(":")[0] for t in F if o.script_outcome(t)[1]})
            facts.setdefault("reach", {})
            for kd in kinds:
                facts["reach"]["failkind_" + kd] = facts["reach"].get("failkind_" + kd, 0) + 1
    return V, facts


def _check_stop_early(o, inv, i, needed, F, S, V):
    # t0: the instant the first failure is observed (its "failed" line)
    t0 = None
    first_failed = None
    for ti, kind, t, _, _ in o.printed:
        if kind == "failed":
            t0, first_failed = ti, t
            break
    if not F:
        if inv.code != 0:
            V.append(Violation("C03", "exit-nonzero-without-failure", {"code": inv.code}, i))
        return
    if inv.code == 0:
        V.append(Violation("C03", "exit-zero-despite-failure", {"failed": sorted(F), "mode": "stop-early"}, i))
    if t0 is None:
        V.append(Violation("C03", "stop-early-no-failure-observed", {"expected_some_of": sorted(F)}, i))
        return
    running = {}
    at_t0 = None
    for ti, k, t, x in o.events:
        if ti > t0 and at_t0 is None:
            at_t0 = dict(running)
        if k == "start":
            if ti > t0:
                V.append(Violation("C03", "task-started-after-first-failure-with-stop-early",
                                   {"task": t, "first_failed": first_failed}, i))
            if x["proc"]:
                running[x["name"]] = t
        elif k == "exit":
            running.pop(x["name"], None)
    if at_t0 is None:
        at_t0 = dict(running)
    killed = {x["name"] for ti, k, t, x in o.events if k == "kill" and x["sig"] == "SIGTERM" and x["how"] == "group"}
    exited_later = {x["name"] for ti, k, t, x in o.events if k == "exit" and ti > t0}
    for name, t in sorted(at_t0.items()):
        # still running when the failure was observed: must get SIGTERM unless it exited by itself
        # before Conductor got to signalling
        if name not in killed and name not in exited_later:
            V.append(Violation("C03", "running-task-not-terminated-on-stop-early", {"task": t}, i))
    rf = o.report_failed or []
    truly_failed = set()
    for ti, k, t, x in o.events:
        if k == "exit" and x["status"] != 0 and x["how"] not in ("sigterm", "sigkill"):
            truly_failed.add(t)
        if k == "launchfail":
            truly_failed.add(t)
    truly_failed |= set(o.step.op.get("combine_conflict", []))
    for t in rf:
        if t not in truly_failed:
            V.append(Violation("C03", "stop-early-reports-task-that-did-not-fail", {"task": t}, i))
    if first_failed not in rf:
        V.append(Violation("C03", "stop-early-report-misses-first-failure", {"first": first_failed, "reported": rf}, i))


# ============================================================================= C04

def check_C04(run):
    V, facts = [], {"nontrivial": []}
    tasks = run.scn["tasks"]
    for i, st in run_steps(run):
        inv = st.inv
        if inv.killed:
            continue
        flags = st.op.get("flags", {})
        o = RunObs(run.scn, st)
        err = M.flag_error(flags, o.git)
        jobs = M.jobs_of(flags, run.scn.get("knobs", {}))
        if err or flags.get("check") or (isinstance(jobs, int) and jobs <= 0):
            continue
        running = {}  # name -> (task, slot)
        maxrun = 0
        seq_running = None
        reuse = False
        for ti, k, t, x in o.events:
            if k == "start":
                if t not in tasks:
                    continue
                par = bool(tasks[t].get("par")) and tasks[t]["kind"] in ("exp", "cmd")
                if seq_running is not None:
                    V.append(Violation("C04", "task-started-while-sequential-task-running",
                                       {"task": t, "sequential": seq_running}, i))
                if not par and running:
                    V.append(Violation("C04", "sequential-task-started-while-others-running",
                                       {"task": t, "kind": tasks[t]["kind"], "running": sorted(v[0] for v in running.values())}, i))
                if x["proc"]:
                    if len(running) + 1 > jobs:
                        V.append(Violation("C04", "more-than-jobs-tasks-running",
                                           {"jobs": jobs, "running": len(running) + 1}, i))
                    slot = x["slot"]
                    if par and jobs > 1:
                        if slot is None:
                            V.append(Violation("C04", "slot-missing-for-parallel-task", {"task": t}, i))
                        else:
                            try:
                                sv = int(slot)
                            except ValueError:
                                sv = -1
                            if not (0 <= sv < jobs):
                                V.append(Violation("C04", "slot-out-of-range", {"task": t, "slot": slot, "jobs": jobs}, i))
                            if any(v[1] == slot for v in running.values()):
                                V.append(Violation("C04", "slot-shared-by-concurrent-tasks", {"task": t, "slot": slot}, i))
                    else:
                        if slot is not None:
                            inherited = "COND_SLOT" in st.op.get("env", {})
                            V.append(Violation("C04", "slot-set-for-%s%s" % (
                                "sequential-task" if not par else "jobs-1",
                                "-inherited-from-environment" if inherited else ""),
                                {"task": t, "slot": slot}, i))
                    running[x["name"]] = (t, slot)
                    if not par:
                        seq_running = t
                    maxrun = max(maxrun, len(running))
            elif k == "exit":
                v = running.pop(x["name"], None)
                if v and seq_running == v[0]:
                    seq_running = None
        if maxrun >= 2:
            facts["nontrivial"].append("j%d-max%d" % (jobs, maxrun))
        elif o.proc_starts():
            facts["nontrivial"].append("j%d-seq" % jobs)
    return V, facts


CHECKS = {"C01": check_C01, "C02": check_C02, "C03": check_C03, "C04": check_C04, "C09": check_C09}
