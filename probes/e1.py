import sys
mon = sys.monitoring
TOOL = 3
mon.use_tool_id(TOOL, "sim")
class Abort(Exception): pass
count = 0
target = None
def on_line(code, lineno):
    global count
    count += 1
    if count == target:
        raise Abort(f"injected at {code.co_name}:{lineno}")
mon.register_callback(TOOL, mon.events.LINE, on_line)

def work():
    x = 0
    for i in range(3):
        x += i
    try:
        y = x * 2
        z = y + 1
    except Abort as e:
        print("caught inside work:", e)
        z = -1
    w = z + 1
    return w

mon.set_local_events(TOOL, work.__code__, mon.events.LINE)
for t in [None, 3, 9, 10, 12]:
    count = 0; target = t
    try:
        r = work()
        print(t, "->", r, "lines", count)
    except Abort as e:
        print(t, "propagated:", e, "lines", count)
