#!/bin/bash
# Runs every seeded change in /verif/seeded against the check(s) recorded in its meta.json (scratch copy of
# /repo/src, see try_patch.sh) and prints CAUGHT / MISSED per change.
cd /verif
for d in seeded/*/; do
  id=$(basename $d)
  obs=$(/venv/bin/python -c "import json;print(json.load(open('$d/meta.json')).get('obsolete',''))")
  if [ -n "$obs" ]; then echo "$id NOT-APPLICABLE (no longer breaks the property: $(echo "$obs" | cut -c1-60)...)"; continue; fi
  props=$(/venv/bin/python -c "import json;print(' '.join(json.load(open('$d/meta.json'))['check']['caught_by']))")
  out=$(NOSHRINK=1 tools/try_patch.sh $d/patch.diff $props 2>&1)
  if echo "$out" | grep -q "PATCH-DOES-NOT-APPLY"; then echo "$id NOT-APPLICABLE (patch no longer applies to HEAD)"; continue; fi
  if echo "$out" | grep -q "rc=1 violations=[1-9]"; then echo "$id CAUGHT  $(echo "$out" | grep 'rc=1' | head -1 | cut -c1-160)"; else echo "$id MISSED  $(echo "$out" | head -2 | cut -c1-200)"; fi
done
