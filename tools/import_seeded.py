#!/venv/bin/python
"""usage: import_seeded.py <prop> <k> <caught-by> <initially: caught|missed> [note]
copies /tmp/mut-<prop>/out/<k> to /verif/seeded/<prop>-<k>/ and writes meta.json"""
import json, os, shutil, subprocess, sys
prop, k, caught_by, initially = sys.argv[1:5]
note = sys.argv[5] if len(sys.argv) > 5 else ""
import os as _os
rnd = _os.environ.get("ROUND", "")
src = "/tmp/mut%s-%s/out/%s" % (rnd, prop, k)
dst = "/verif/seeded/%s%s-%s" % (prop, rnd, k)
os.makedirs(dst, exist_ok=True)
for f in os.listdir(src):
    if os.path.isfile(os.path.join(src, f)):
        shutil.copy(os.path.join(src, f), dst)
conf = subprocess.run(["/verif/tools/confirm_seeded.sh", dst], capture_output=True, text=True).stdout.strip().splitlines()[-1]
notes = open(os.path.join(dst, "notes.md")).read() if os.path.exists(os.path.join(dst, "notes.md")) else ""
files = subprocess.run("grep '^+++ ' %s/patch.diff | sed 's/+++ b\\///'" % dst, shell=True, capture_output=True, text=True).stdout.split()
meta = {
    "property": prop,
    "files_changed": files,
    "needs_to_manifest": notes[:1500],
    "confirmation": {"command": "tools/confirm_seeded.sh seeded/%s-%s  (fresh scratch worktree of /repo HEAD: demo without the change, "
                                "git apply, demo with the change, baseline tests with the change)" % (prop, k), "result": conf},
    "check": {"command": "tools/try_patch.sh seeded/%s-%s/patch.diff %s" % (prop, k, caught_by.replace(",", " ")),
              "caught_by": caught_by.split(","), "first_attempt": initially, "note": note},
}
json.dump(meta, open(os.path.join(dst, "meta.json"), "w"), indent=1)
print(dst, conf)
