import sys, dis
mon = sys.monitoring
TOOL = 3
mon.use_tool_id(TOOL, "sim")
E = mon.events
class Abort(Exception): pass
count = 0; target = None; log = []
def maybe(kind, code, off):
    global count
    count += 1
    log.append((count, kind, code.co_name, off))
    if count == target:
        raise Abort(f"#{count} {kind} {code.co_name}@{off}")
def on_start(code, off): maybe("PY_START", code, off)
def on_cret(code, off, callable_, arg0): maybe("C_RETURN", code, off)
def on_craise(code, off, callable_, arg0): maybe("C_RAISE", code, off)
def on_jump(code, off, dest):
    if dest < off: maybe("JUMP_BACK", code, off)
def on_call(code, off, callable_, arg0): pass
mon.register_callback(TOOL, E.PY_START, on_start)
mon.register_callback(TOOL, E.C_RETURN, on_cret)
mon.register_callback(TOOL, E.C_RAISE, on_craise)
mon.register_callback(TOOL, E.JUMP, on_jump)
mon.register_callback(TOOL, E.CALL, on_call)

class P:
    def __init__(self): self.pid = 5
spawned = []
def spawn():
    p = P()
    spawned.append(p)
    return p
def work():
    process = None
    try:
        d = dict(a=1)
        process = spawn()
        n = len(spawned)
        for i in range(2):
            n += i
        return process.pid
    except Abort as e:
        return ("abort", process is not None, len(spawned))

for c in (work.__code__, spawn.__code__, P.__init__.__code__):
    mon.set_local_events(TOOL, c, E.PY_START | E.CALL | E.JUMP)
target=None; count=0; print(work()); n=count; print(n, log)
for t in range(1, n+1):
    spawned.clear(); count=0; target=t; log.clear()
    try: print(t, work(), log[-1])
    except Abort as e: print(t, "escaped", e)
dis.dis(work, show_caches=False)
