"""Turns the raw record of a `cond run` invocation into the observations the oracles reason about."""
import re

from . import model as M
from .scenario import split_tid

ANSI = re.compile(r"\x1b\[[0-9;]*m")
RE_RUNNING = re.compile(r"✱ Running (\S+)\.\.\. \((\d+)/(\d+)\)")
RE_SKIPPING = re.compile(r"✱ Skipping (\S+)\. \((\d+)/(\d+)\)")
RE_DONE = re.compile(r"✓ (\S+) completed successfully\.")
RE_FAILED = re.compile(r"✘ (\S+) failed\.")
RE_CACHED = re.compile(r"✓ Using cached results for (\S+)\.")


def strip(text):
    return ANSI.sub("", text)


class FormatNotRecognised(Exception):
    """harness error, never a violation"""


class Violation:
    def __init__(self, prop, signature, detail, step=None):
        self.prop = prop
        self.signature = signature
        self.detail = detail
        self.step = step

    def to_json(self):
        return {"property": self.prop, "signature": self.signature, "detail": self.detail,
                "step": self.step}

    def __repr__(self):
        return "Violation(%s, %r, step=%s)" % (self.prop, self.signature, self.step)


class RunObs:
    """observations of one `cond run` invocation"""

    def __init__(self, scn, step):
        inv = step.inv
        self.scn = scn
        self.step = step
        self.inv = inv
        tasks = scn["tasks"]
        self.tasks = tasks
        self.flags = step.op.get("flags", {})
        self.git = M.GitView(step.git, step.disable_git)
        self.rows_before = step.before["rows"] if step.before and isinstance(step.before["rows"], list) else []
        # combine output dirs -> task
        self.combine_dirs = {}
        for t, d in tasks.items():
            if d["kind"] == "combine":
                self.combine_dirs["cond-out/" + M.out_dir_rel(t)] = t
        # ordered events
        self.events = []  # (ti, kind, task, extra)
        self.printed = []  # (ti, kind, task, k, N)
        started_combine = set()
        self.running_lines = {}
        self.exec_names = {}
        for ti, e in enumerate(inv.trace):
            k = e[0]
            if k == "spawn":
                name = e[1]
                task = name.rsplit("#", 1)[0]
                self.events.append((ti, "start", task, {"name": name, "slot": e[2], "proc": True}))
            elif k == "launchfail":
                self.events.append((ti, "launchfail", e[1], {"how": e[2]}))
            elif k == "exit":
                name = e[1]
                task = name.rsplit("#", 1)[0]
                self.events.append((ti, "exit", task, {"name": name, "how": e[2], "status": e[3]}))
            elif k == "reap":
                name = e[1]
                task = name.rsplit("#", 1)[0]
                self.events.append((ti, "reap", task, {"name": name, "via": e[2]}))
            elif k == "kill":
                name = e[1]
                task = name.rsplit("#", 1)[0]
                self.events.append((ti, "kill", task, {"name": name, "sig": e[2], "how": e[3], "state": e[4]}))
            elif k == "fs":
                p = e[2]
                for cd, t in self.combine_dirs.items():
                    if (p == cd or p.startswith(cd + "/")) and t not in started_combine:
                        # only counts while that combine task is the one being executed, i.e. after
                        # its "Running" line; mkdir of parents by other tasks is not inside cd
                        started_combine.add(t)
                        self.events.append((ti, "start", t, {"name": t + "#c", "slot": None, "proc": False}))
            elif k == "out":
                text = strip(e[1])
                m = RE_RUNNING.search(text)
                if m:
                    self.printed.append((ti, "running", m.group(1), int(m.group(2)), int(m.group(3))))
                    continue
                m = RE_SKIPPING.search(text)
                if m:
                    self.printed.append((ti, "skipping", m.group(1), int(m.group(2)), int(m.group(3))))
                    continue
                m = RE_CACHED.search(text)
                if m:
                    self.printed.append((ti, "cached", m.group(1), None, None))
                    continue
                m = RE_DONE.search(text)
                if m:
                    self.printed.append((ti, "done", m.group(1), None, None))
                    continue
                m = RE_FAILED.search(text)
                if m:
                    self.printed.append((ti, "failed", m.group(1), None, None))
                    continue
            elif k in ("sigsent", "handler", "DEADLOCK", "main_done", "EXITHANG"):
                self.events.append((ti, k, None, {"ev": e}))
        # the oracles read Conductor's status lines; if none can be recognised although tasks ran, the
        # output format has changed and nothing this module concludes can be trusted
        if inv.code is not None and inv.internal is None and not inv.killed and \
                any(sp["task"] in tasks for sp in inv.spawns) and \
                not any(kind == "running" for _, kind, _, _, _ in self.printed):
            raise FormatNotRecognised("cond run spawned tasks but printed no recognisable 'Running' status line")
        # final report
        text = strip(inv.out.decode("utf-8", "replace"))
        self.text = text
        self.report_failed = None
        self.report_skipped = None
        if "Failed task(s):" in text:
            tail = text.split("Failed task(s):", 1)[1]
            failed_part, _, skipped_part = tail.partition("Skipped task(s)")
            self.report_failed = re.findall(r"^  (//\S+)$", failed_part, re.M)
            self.report_skipped = re.findall(r"^  (//\S+)$", skipped_part, re.M) if skipped_part else []
        self.done_banner = "✨ Done!" in text
        self.aborted_banner = "Task aborted." in text
        self.failed_banner = "Task failed." in text

    # ---- derived
    def proc_starts(self):
        return [(ti, t, x) for ti, k, t, x in self.events if k == "start" and x["proc"]]

    def starts(self):
        return [(ti, t, x) for ti, k, t, x in self.events if k == "start"]

    def started_tasks(self):
        """every task that began executing: process spawns, launch failures, combine steps, and
        groups (which have no step; their 'Running' line is the only observable)"""
        out = []
        for ti, k, t, x in self.events:
            if k in ("start", "launchfail"):
                out.append(t)
        for ti, kind, t, _, _ in self.printed:
            if kind == "running" and t in self.tasks and self.tasks[t]["kind"] == "group":
                out.append(t)
        return out

    def model_plan(self):
        """(needed, cached, error) according to the model for this invocation"""
        err = M.flag_error(self.flags, self.git)
        if err:
            return set(), set(), err
        target = self.step.op["target"]
        if target in self.tasks and any(len(set(self.tasks[t]["deps"])) < len(self.tasks[t]["deps"])
                                        for t in M.closure(self.tasks, target)):
            return set(), set(), "duplicate-dependency"
        alh = M.at_least_hash(self.flags, self.git)
        needed, cached = M.plan(self.tasks, target, self.rows_before, self.git,
                                again=bool(self.flags.get("again")), at_least_hash=alh)
        return needed, cached, None

    def script_outcome(self, task, execno=0):
        """('ok'|'fail', how) that the scenario prescribes for an execution of task"""
        sc = self.step.op.get("scripts", {}).get(task)
        if sc is None:
            return "ok", None
        if isinstance(sc, list):
            sc = sc[execno] if execno < len(sc) else (sc[-1] if sc else None)
        if not sc:
            return "ok", None
        if sc.get("launch") == "mkdir":
            # creating the output directory fails: only takes effect where there is a directory to create
            # (a run_command / combine output directory persists between invocations)
            before = getattr(self.step, "before", None)
            tree = before["tree"] if before else {}
            if self.tasks[task]["kind"] != "exp" and M.out_dir_rel(task) in tree:
                sc = dict(sc)
                sc.pop("launch")
        if sc.get("launch"):
            return "fail", "launch:" + sc["launch"]
        end = sc.get("end", ["exit", 0])
        if end[0] == "exit" and end[1] == 0:
            return "ok", None
        if end[0] == "hang":
            return "hang", None
        return "fail", "%s:%s" % (end[0], end[1])


def topo_order(tasks):
    return list(tasks)  # generation order is a topological order (deps point backwards)


def fail_skip_sets(obs, needed, extra_fail=()):
    """F (needed tasks that run and fail by the scenario's scripts) and S (needed tasks that
    transitively depend on a member of F)."""
    tasks = obs.tasks
    F, S = set(), set()
    for t in topo_order(tasks):
        if t not in needed:
            continue
        td = M.trans_deps(tasks, t)
        if td & F:
            S.add(t)
            continue
        k = tasks[t]["kind"]
        if k in ("exp", "cmd"):
            oc, _ = obs.script_outcome(t)
            if oc == "fail":
                F.add(t)
        if t in extra_fail:
            F.add(t)
    return F, S


def exec_path_exists(tasks, src, dst, allowed):
    """is dst reachable from src along dependency edges whose intermediate tasks are all in `allowed`?"""
    seen = set()
    stack = [src]
    while stack:
        x = stack.pop()
        for d in tasks[x]["deps"]:
            if d == dst:
                return True
            if d in allowed and d not in seen:
                seen.add(d)
                stack.append(d)
    return False


def hidden_skips(tasks, needed, F, S):
    """members of S whose only connection to a failed task runs through a task that is not part of
    this invocation's plan (a reusable cached experiment)"""
    out = set()
    for t in S:
        if not any(exec_path_exists(tasks, t, f, needed) for f in F):
            out.add(t)
    return out
