#!/venv/bin/python
"""Regenerates /verif/MANIFEST.json from the registry in cverif/props.py and validates it."""
import json, sys, pathlib
sys.path.insert(0, "/verif")
from cverif import props

NA = [
    {"property_id": "C14", "reason": "graph validation is a pure function of the COND files and the target; no schedule, clock, fault, crash point or stored history enters it (DESIGN.md section 8)"},
    {"property_id": "C15", "reason": "acceptance of a COND definition is a pure function of the COND source text (DESIGN.md section 8)"},
    {"property_id": "C19", "reason": "equivalence of run_experiment_group with its expansion is translation validation of a pure desugaring; nothing for a simulator to schedule or fault (DESIGN.md section 8)"},
    {"property_id": "C20", "reason": "identifier grammar / round trip / distinct locations is a pure string function; exhaustive enumeration, not simulation, is the right tool (DESIGN.md section 8)"},
]
checks = []
for pid in sorted(props.PROPS):
    P = props.PROPS[pid]
    checks.append({
        "property_id": pid,
        "quick_cmd": "./check %s --tier quick" % pid,
        "thorough_cmd": "./check %s --tier thorough" % pid,
        "evidence_file": "/verif/evidence/%s.json" % pid,
        "replay_cmd_template": "./check %s --replay {path}" % pid,
        "engine": "cverif",
        "level_claimed": {"category": P.level, "text": P.level_text, "design_ref": "DESIGN.md section 7 (%s)" % pid},
        "level_note": P.level_note,
        "technique": P.technique,
    })
claimed = {c["property_id"] for c in checks}
all_ids = [json.loads(l)["id"] for l in open("/verif/properties.jsonl")]
na = [n for n in NA if n["property_id"] not in claimed]
for pid in all_ids:
    if pid not in claimed and pid not in {n["property_id"] for n in na}:
        na.append({"property_id": pid, "reason": "check not built yet in this session (claimed by DESIGN.md; see section 7)"})
m = {
    "version": 1,
    "setup_cmd": "/venv/bin/python -c \"import conductor, sys; assert conductor.__file__.startswith('/repo/src'), conductor.__file__\"",
    "hooks": {
        "guard": "CONDUCTOR_VERIF",
        "enable": "no source hooks exist: every seam is a standard-library monkeypatch applied from /verif/cverif (DESIGN.md 3.2); conductor is imported from /repo/src as it stands",
        "baseline_off_cmd": "cd /repo && /venv/bin/python -m pytest -ra -q -p no:cacheprovider --timeout=900 --continue-on-collection-errors",
        "source_commits": [],
        "add_only": True,
    },
    "engines": [{"name": "cverif", "path": "/verif/cverif", "serves_properties": sorted(claimed),
                 "kind_free_text": "in-process deterministic simulator: fake kernel (process table, signals), sys.monitoring instants and check points, seeded scheduler, baton-passed tee threads, simulated clock and git, fork+_exit kill points; seeded search over scenarios, schedules and fault sequences with own shrinker and JSON replay files"}],
    "checks": checks,
    "not_applicable": na,
    "notes": "fix: commits in /repo repair defects found by these checks (see /verif/known_findings.json 'fixed'); open findings are listed there too. Exit codes: 0 held, 1 violation, 2 harness error.",
}
pathlib.Path("/verif/MANIFEST.json").write_text(json.dumps(m, indent=1) + "\n")
import subprocess
subprocess.run(["python3-vt", "-c", "import json, jsonschema; jsonschema.validate(json.load(open('/verif/MANIFEST.json')), json.load(open('/root/.vp/MANIFEST.schema.json')))"], check=True)
print("MANIFEST.json: %d checks, %d not applicable" % (len(checks), len(na)))
