"""Deterministic simulation of geoffxy/conductor (see /verif/DESIGN.md)."""
