#!/venv/bin/python
"""Real-signal probe (no simulator): runs `cond run` in this process with real children and sends a real
SIGINT to itself when the main thread executes the k-th line of a named function (sys.monitoring LINE
event), i.e. a real signal in a chosen window.  Used to confirm D6c / D6d against the real interpreter.

usage: real_signal_probe.py <src-dir> <window> [k]
  window = del      : inside OutputHandler.__del__ -> finish()   (D6c)
           report   : inside cli_command's error report (after the final failure report) (D6d)
prints the exit status and stderr tail of the in-process command."""
import os, signal, subprocess, sys, tempfile, pathlib

src, window = sys.argv[1], sys.argv[2]
k = int(sys.argv[3]) if len(sys.argv) > 3 else 1
code = r'''
import os, signal, sys
sys.path.insert(0, %(src)r)
window, k = %(window)r, %(k)d
import conductor.__main__ as M
import conductor.utils.output_handler as OH
import conductor.utils.user_code as UC
mon = sys.monitoring
TOOL = 3
mon.use_tool_id(TOOL, "probe")
count = [0]
fired = [False]
def in_window(code):
    f = sys._getframe(2)
    names = []
    while f is not None:
        names.append(f.f_code.co_name); f = f.f_back
    if window == "del":
        return "__del__" in names and code.co_filename.endswith("output_handler.py")
    if window == "report":
        return code.co_filename.endswith("user_code.py") and REPORTED[0]
    return False
REPORTED = [False]
_real_write = sys.stderr.write
def line(code, lineno):
    if fired[0]:
        return mon.DISABLE
    if in_window(code):
        count[0] += 1
        if count[0] == k:
            fired[0] = True
            sys.stdout.write("PROBE: SIGINT at %%s:%%d\n" %% (os.path.basename(code.co_filename), lineno))
            os.kill(os.getpid(), signal.SIGINT)
mon.register_callback(TOOL, mon.events.LINE, line)
mon.set_events(TOOL, mon.events.LINE)
class W:
    def write(self, s):
        if "ERROR:" in s: pass
        return _real_write(s)
    def flush(self): sys.__stderr__.flush()
import builtins
_print = builtins.print
def p(*a, **kw):
    r = _print(*a, **kw)
    if a and isinstance(a[0], str) and ("Task failed" in a[0] or "Failed task" in a[0]):
        REPORTED[0] = True
    return r
builtins.print = p
import conductor.utils.colored_output as CO
sys.argv = ["cond", "run", "//:top"]
M.main()
''' % {"src": src, "window": window, "k": k}

with tempfile.TemporaryDirectory() as d:
    root = pathlib.Path(d)
    (root / "cond_config.toml").write_text("")
    fail = "exit 3" if window == "report" else "true"
    (root / "COND").write_text(
        'run_command(name="a", run="echo a; %s")\n'
        'run_command(name="top", run="echo top", deps=[":a"])\n' % fail)
    r = subprocess.run([sys.executable, "-c", code], cwd=d, capture_output=True, text=True, timeout=60)
    print(r.stdout[-600:])
    print("exit status:", r.returncode)
    print("stderr tail:", r.stderr[-700:])
